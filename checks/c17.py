"""C17 - full text search returns exactly the rows whose current text matches.
spec/fts/Fts.tla (index maintenance, slots, deviations), spec/fts/Trace_Fts.tla (monitor on search events);
scenarios: behaviours of spec/sync/Gen_Sync with a search for every token after every operation."""
import json
import os
import vlib
import synccommon

D = os.path.join(vlib.SPEC, "fts")
DS = os.path.join(vlib.SPEC, "sync")


def fts_cfg(dev, rows=2, slots=3):
    return "CONSTANTS\n  Peer = {p1, p2}\n  Row = {%s}\n  Text = {\"ta\", \"tb\"}\n  MaxSlot = %d\n  DEV = {%s}\nSPECIFICATION Spec\nINVARIANT SearchExact\nCHECK_DEADLOCK FALSE\n" % (
        ", ".join(["x1", "x2", "x3"][:rows]), slots, ", ".join('"%s"' % d for d in dev))


def token(k):
    s = ""
    for _ in range(4):
        s = chr(97 + k % 26) + s
        k //= 26
    return "w" + s


def with_searches(sc):
    steps = []
    toks = {"A": [], "B": []}
    k = 0
    for st in sc["steps"]:
        if st["op"] == "put":
            k += 1
            st = dict(st)
            st["text"] = token(k * 7 + sc["sid"] * 131)
            toks[st["ent"]].append(st["text"])
        steps.append(st)
        if st["op"] in ("put", "del", "pull", "quiesce"):
            for e in ("A", "B"):
                for t in toks[e][-4:]:
                    steps.append({"op": "search", "ent": e, "tok": t})
    sc = dict(sc)
    sc["steps"] = steps
    return sc


def run(ctx, replay):
    quick = ctx.tier == "quick"
    ctx.build()
    known_ids = [f["id"] for f in ctx.known]
    if replay:
        scen = [json.load(open(replay))["scenario"]]
    else:
        ctx.model_check(D, "Fts", fts_cfg([], 2 if quick else 3, 3 if quick else 4), "design")
        for dev in ["DeleteKeepsIndexEntry", "SyncedRowsNotIndexed"]:
            ctx.expect_counterexample(D, "Fts", fts_cfg([dev]), "cex_" + dev)
        scen = []
        n = 0
        for (np, rows3, mv, depth, num) in ([(2, True, 8, 10, 70), (3, False, 7, 10, 30)] if quick else [(2, True, 9, 12, 600), (3, True, 9, 13, 300)]):
            hs = ctx.generate(DS, "Gen_Sync", synccommon.consts(np, rows3, mv, 1, synccommon.ALLDEV) +
                              "  MaxLen = %d\n  Mode = \"sim\"\nSPECIFICATION GSpec\nINVARIANT Emit\nCHECK_DEADLOCK FALSE\n" % depth,
                              "sim_%d%d" % (np, 3 if rows3 else 2), workers=1, simulate="num=%d" % num, depth=depth, timeout=300)
            for h in hs:
                n += 1
                scen.append(with_searches(synccommon.to_scenario(n, h, np)))
    sp = ctx.write_scenarios(scen)
    tp = os.path.join(ctx.work, "trace.ndjson")
    ctx.dv_world(sp, tp)
    cfg = "CONSTANTS\n  KNOWN = {%s}\nSPECIFICATION TSpec\nINVARIANT Monitors\nPOSTCONDITION Reached\nCHECK_DEADLOCK FALSE\n" % (
        ", ".join('"%s"' % k for k in known_ids))
    res = ctx.validate(D, "Trace_Fts", cfg, tp, "val", chunk=60, max_fail=5)
    by_sid = {sc["sid"]: sc for sc in scen}
    traces = {t["sid"]: t for t in vlib.split_trace(tp)}
    nontrivial = set()
    for x in res:
        sc = by_sid[x["sid"]]
        if x["ok"]:
            ctx.cov["traces_validated_against_impl"] += 1
            for dv in x["devs"]:
                ctx.cov["deviations_observed"][dv] = ctx.cov["deviations_observed"].get(dv, 0) + 1
                ctx.known_finding(dv, next(f.get("what", "") for f in ctx.known if f["id"] == dv))
        else:
            ctx.violation(x["reason"], {"property": "C17", "scenario": sc, "reason": x["reason"], "trace": x["lines"]})
        t = traces.get(x["sid"])
        if t and any('"ev":"del"' in ln and '"res":"ok"' in ln for ln in t["lines"]) and any('"ev":"pull"' in ln and '"fetched":0' not in ln for ln in t["lines"]):
            nontrivial.add(json.dumps(sc["hist"]))
    for sc in scen[:2]:
        ctx.cov["samples"].append({"scenario": sc["hist"], "first_events": [synccommon.strip(json.loads(x)) for x in traces[sc["sid"]]["lines"][:10]]})
    ctx.assumptions += ["search texts are distinct 5-letter tokens, none contained in another", "2-3 peers of one user"]
    return ctx.finish("model_checking", "scenarios = TLC simulation of Sync.tla (creations, updates, deletions, slot reuse, pulls) with a search of the last tokens "
                      "of both entities after every operation; non-trivial = distinct histories with a deletion and a pull that transferred a row", len(nontrivial))
