"""C04 - values round-trip unchanged and text is never executed.
spec/store: Store.tla (routes of a value into a statement: parameter, literal, default; decoding; structure of the statement),
Gen_Store (every class sequence on every route, every raw/escaped choice), Trace_Store; harness: dv values (real mutate / query)."""
import json
import os
import random
import re
import struct
import vlib

D = os.path.join(vlib.SPEC, "store")

CLS = ["plain", "squote", "dquote", "bslash", "newline", "ctrl", "sqlmeta", "jsonmeta", "bmp", "astral", "dollar", "nul"]
# concrete characters of each class: (text, escaped form or None)
REPS = {
    "plain": [("a", None), ("Z9", None), (" x ", None), ("null", None), ("true", None)],
    "squote": [("'", None), ("''", None)],
    "dquote": [('"', '\\"')],
    "bslash": [("\\", "\\\\")],
    "newline": [("\n", "\\n"), ("\r\n", "\\r\\n"), ("\t", "\\t")],
    "ctrl": [("\u0001", "\\u0001"), ("\u001f", "\\u001F"), ("\u0008", "\\b"), ("\u000c", "\\f"), ("\u007f", "\\u007f")],
    "sqlmeta": [(";", None), ("--", None), (")", None), ("(", None), ("%", None), ("_", None), ("/*", None), ("*", None), (" OR 1=1", None), ("?1", None)],
    "jsonmeta": [("{", None), ("}", None), ("[", None), ("]", None), (":", None), (",", None), ("/", "\\/")],
    "bmp": [("é", "\\u00e9"), ("日", "\\u65E5"), ("\u2028", "\\u2028"), ("\ufeff", "\\ufeff"), ("\uffff", "\\uffff")],
    "astral": [("\U0001F600", "\\ud83d\\ude00"), ("\U0010FFFF", "\\udbff\\udfff"), ("\U00010000", "\\ud800\\udc00")],
    "dollar": [("$", None), ("$p", None), ("$room", None)],
    "nul": [("\u0000", None)],
}
I64MAX = 2 ** 63 - 1
SCALARS = {
    "Integer": {"min": -2 ** 63, "minp1": -2 ** 63 + 1, "neg": -12345, "m1": -1, "zero": 0, "one": 1, "pos": 987654321012, "maxm1": I64MAX - 1, "max": I64MAX, "i53": 2 ** 53 + 1},
    "Float": {"zero": 0.0, "one": 1.0, "frac": 0.1, "neg": -2.5, "tiny": 1e-300, "huge": 1e300, "max": 1.7976931348623157e308, "denorm": 5e-324,
              "digits17": 0.30000000000000004, "intlike": 123456789.0},
    "Boolean": {"true": True, "false": False},
    "Base64": {"empty": "", "short": "AA", "pad": "AQI", "urlsafe": "_-8A", "long": "QUJD" * 600},
    "Json": {"object": '{"a":1,"b":"x"}', "array": "[1,2,3]", "string": '"s"', "number": "12.5", "nested": '{"a":{"b":[{"c":null}]}}',
             "quotes": json.dumps({"q": "it's \"q\" \\ \n"}), "null": "null", "unicode": json.dumps({"é": "日\U0001F600"}, ensure_ascii=False), "bool": "true"},
}
WITNESS = {"String": "witness", "Integer": 7, "Float": 7.5, "Base64": "AAAA", "Json": '{"w":1}'}
OTHER = {"String": "other", "Integer": 8, "Float": 8.5, "Base64": "AAAB", "Json": '{"o":1}'}
ENT = {"String": "S", "Integer": "I", "Float": "F", "Boolean": "Bo", "Base64": "B64", "Json": "J"}


def float_literal(x):
    r = repr(float(x))
    if "e" in r:
        m, e = r.split("e")
        if "." not in m:
            m += ".0"
        return m + "e" + e
    return r


def literal_of(ty, v):
    if ty == "Integer":
        return str(v)
    if ty == "Float":
        return float_literal(v)
    if ty == "Boolean":
        return "true" if v else "false"
    return json.dumps(v, ensure_ascii=False)


def model(dty, dlit):
    return ("v { S { k: Integer, v: String nullable, o: String nullable } I { k: Integer, v: Integer nullable, o: String nullable } "
            "F { k: Integer, v: Float nullable, o: String nullable } Bo { k: Integer, v: Boolean nullable, o: String nullable } "
            "B64 { k: Integer, v: Base64 nullable, o: String nullable } J { k: Integer, v: Json nullable, o: String nullable } "
            "Dft { k: Integer, o: String nullable, d: %s default %s } }" % (dty, dlit))


def instantiate(t, rnd, repeat=1):
    """a test of Gen_Store made concrete: one representative per class occurrence"""
    ty = t["type"]
    out = {"kind": t["kind"], "type": ty, "ent": "Dft" if t["kind"] == "default" else ENT[ty], "via": t["via"], "cls": t["cls"], "form": t["form"]}
    if ty == "String":
        val, lit = "", ""
        for i, c in enumerate(t["cls"]):
            text, esc = rnd.choice(REPS[c])
            val += text * repeat
            if t["form"] and t["form"][i] == "esc":
                lit += (esc if esc is not None else text) * repeat
            else:
                assert c not in ("dquote", "bslash") or not t["form"]
                lit += text * repeat
        out["val"] = val
        out["lit"] = '"' + lit + '"' if t["form"] or t["via"] != "param" else json.dumps(val, ensure_ascii=False)
        out["wit"] = WITNESS["String"]
        out["other"] = OTHER["String"]
    else:
        v = SCALARS[ty][t["cls"][0]]
        out["val"] = v
        out["lit"] = literal_of(ty, v)
        out["wit"] = (not v) if ty == "Boolean" else WITNESS[ty]
        out["other"] = (not v) if ty == "Boolean" else OTHER[ty]
    return out


def run(ctx, replay):
    quick = ctx.tier == "quick"
    ctx.build()
    known_ids = [f["id"] for f in ctx.known]
    rnd = random.Random(ctx.seed)
    base_cfg = "CONSTANTS\n  Cls = {%s}\n  MaxLen = %d\n  Keys = {1, 2}\n  DEV = {%s}\n"
    if replay:
        scen = [json.load(open(replay))["scenario"]]
    else:
        # the design: properties hold without deviation, each deviation has a counterexample
        small = ", ".join('"%s"' % c for c in ["plain", "squote", "dquote", "bslash", "newline", "astral"])
        invs = "SPECIFICATION Spec\nINVARIANT RoundTrip\nINVARIANT FilterFindsWritten\nINVARIANT StructureFixed\nINVARIANT OtherFieldUntouched\nCHECK_DEADLOCK FALSE\n"
        ctx.model_check(D, "Store", base_cfg % (small, 2, "") + invs, "design", workers=8, timeout=900)
        ctx.expect_counterexample(D, "Store", base_cfg % (small, 2, '"LiteralUnescapesOnlyQuote"') + invs, "dev-literal", workers=4)
        ctx.expect_counterexample(D, "Store", base_cfg % (small, 2, '"DefaultSplicedInSql"') + invs, "dev-default", workers=4)
        ctx.expect_counterexample(D, "Store", base_cfg % (small, 2, '"LiteralCapturesVariable"') + invs, "dev-capture", workers=4)
        allc = ", ".join('"%s"' % c for c in CLS)
        tests = ctx.generate(D, "Gen_Store", base_cfg % (allc, 2 if quick else 3, "") + "SPECIFICATION GSpec\nCHECK_DEADLOCK FALSE\n", "gen", workers=1, timeout=1500)
        values = [t for t in tests if t["kind"] == "value"]
        defaults = [t for t in tests if t["kind"] == "default"]
        if quick:
            sd = [t for t in defaults if t["type"] != "String"]
            st = [t for t in defaults if t["type"] == "String"]
            must = [t for t in st if len(t["cls"]) == 1]
            defaults = sd + must + rnd.sample([t for t in st if len(t["cls"]) != 1], 30)
        else:
            long3 = [t for t in values if len(t["cls"]) == 3]
            keep = [t for t in values if len(t["cls"]) < 3]
            values = keep + rnd.sample(long3, min(len(long3), 6000))
            d3 = [t for t in defaults if len(t["cls"]) == 3]
            defaults = [t for t in defaults if len(t["cls"]) < 3] + rnd.sample(d3, min(len(d3), 300))
        conc = []
        reps = 1 if quick else 3
        for t in values:
            for r in range(reps):
                conc.append(instantiate(t, rnd))
        # long values: every class repeated
        for c in CLS:
            for via, form in (("param", []), ("literal", ["esc" if c in ("dquote", "bslash", "newline", "ctrl", "bmp", "astral") else "raw"])):
                conc.append(instantiate({"kind": "value", "type": "String", "via": via, "cls": [c], "form": form}, rnd, repeat=1500))
        scen = []
        for i in range(0, len(conc), 25):
            chunk = conc[i:i + 25]
            for j, t in enumerate(chunk):
                t["tid"] = j + 1
            scen.append({"model": model("String", '"x"'), "tests": chunk})
        for t in defaults:
            c = instantiate(t, rnd)
            c["tid"] = 1
            scen.append({"model": model(c["type"], c["lit"]), "tests": [c]})
        for i, sc in enumerate(scen):
            sc["sid"] = i + 1
    sp = ctx.write_scenarios(scen)
    tp = os.path.join(ctx.work, "trace.ndjson")
    ctx.dv_world(sp, tp, nproc=6, sub="values")
    cfg = "CONSTANTS\n  KNOWN = {%s}\nSPECIFICATION TSpec\nINVARIANT Monitors\nPOSTCONDITION Reached\nCHECK_DEADLOCK FALSE\n" % (
        ", ".join('"%s"' % k for k in known_ids))
    res = ctx.validate(D, "Trace_Store", cfg, tp, "val", chunk=60, max_fail=6)
    by_sid = {sc["sid"]: sc for sc in scen}
    classes = set()
    ntests = 0
    for x in res:
        sc = by_sid[x["sid"]]
        if x["ok"]:
            ctx.cov["traces_validated_against_impl"] += 1
            for dv in x["devs"]:
                ctx.cov["deviations_observed"][dv] = ctx.cov["deviations_observed"].get(dv, 0) + 1
                ctx.known_finding(dv, next(f.get("what", "") for f in ctx.known if f["id"] == dv))
        else:
            ctx.violation(x["reason"], {"property": "C04", "scenario": sc, "reason": x["reason"], "trace": [l[:600] for l in x["lines"]]})
        for t in sc["tests"]:
            ntests += 1
            classes.add((t["kind"], t["type"], t["via"], tuple(t["cls"]), tuple(t["form"])))
    ctx.cov["tests_run"] = ntests
    ctx.cov["samples"].append({k: (v if not isinstance(v, str) else v[:80]) for k, v in scen[0]["tests"][0].items()})
    ctx.assumptions += ["a string is represented by one to three characters chosen among the representatives of its classes (plus one long value per class)",
                        "equality filters on Json fields are not part of the language for literals and are not checked",
                        "aliases are identifiers by the grammar and cannot carry metacharacters; search terms are bound parameters (their FTS5 sub-language is exercised by C14)"]
    return ctx.finish("model_checking", "every class sequence of Gen_Store (length <= %d%s) on every route and raw/escaped form, every class of the other scalar types, "
                      "defaults of every type; non-trivial = distinct (kind, type, route, classes, forms)" % (2 if quick else 3, "" if quick else ", length 3 sampled"),
                      len(classes), exhaustive=quick is False and not replay)
