"""C16 - concurrent mutations of one row do not lose acknowledged changes.
spec/pipeline: Pipeline.tla (phases of the mutation pipeline; design vs as-is), Gen_Pipeline (every interleaving),
Trace_Pipeline (final row in the serial outcomes); harness: dv pipeline (the real phase functions, driven in the interleaving's order)."""
import json
import os
import vlib

D = os.path.join(vlib.SPEC, "pipeline")
SETS = {
    "2diff": ('{"m1", "m2"}', "F2", "V2", {"m1": {"field": "name", "val": "n1"}, "m2": {"field": "tag", "val": "g2"}}),
    "2same": ('{"m1", "m2"}', "F2s", "V2", {"m1": {"field": "name", "val": "n1"}, "m2": {"field": "name", "val": "g2"}}),
    "2noop": ('{"m1", "m2"}', "F2n", "V2", {"m1": {"field": "name", "val": "n1"}, "m2": {"field": "none", "val": "", "text": "mutate { v.A { id:$id ra:null } }"}}),
    "3noop": ('{"m1", "m2", "m3"}', "F3n", "V3", {"m1": {"field": "name", "val": "n1"}, "m2": {"field": "none", "val": "", "text": "mutate { v.A { id:$id rb:null } }"},
                                                   "m3": {"field": "tag", "val": "n3"}}),
    "3mix": ('{"m1", "m2", "m3"}', "F3", "V3", {"m1": {"field": "name", "val": "n1"}, "m2": {"field": "tag", "val": "g2"}, "m3": {"field": "name", "val": "n3"}}),
}


def cfg(key, dev, spec, extra=""):
    m, f, v, _ = SETS[key]
    return "CONSTANTS\n  Mut = %s\n  Field = {\"name\", \"tag\"}\n  FieldOf <- %s\n  ValOf <- %s\n  DEV = {%s}\nSPECIFICATION %s\n%sCHECK_DEADLOCK FALSE\n" % (
        m, f, v, ", ".join('"%s"' % d for d in dev), spec, extra)


def run(ctx, replay):
    quick = ctx.tier == "quick"
    ctx.build()
    known_ids = [f["id"] for f in ctx.known]
    if replay:
        scen = [json.load(open(replay))["scenario"]]
    else:
        scen = []
        n = 0
        for key in (["2diff", "2same", "2noop"] if quick else ["2diff", "2same", "2noop", "3noop", "3mix"]):
            ctx.model_check(D, "MC_Pipeline", cfg(key, [], "GSpec", "INVARIANT Serializable\n"), "design_" + key)
            ctx.expect_counterexample(D, "MC_Pipeline", cfg(key, ["StaleSnapshotWrittenBack"] + (["NoopWritesSnapshot"] if "noop" in key else []), "GSpec", "INVARIANT Serializable\n"), "cex_" + key)
            hs = ctx.generate(D, "MC_Pipeline", cfg(key, ["StaleSnapshotWrittenBack"], "GSpec", "INVARIANT Emit\n"), "orders_" + key, workers=1, timeout=600)
            for h in hs:
                n += 1
                scen.append({"sid": n, "muts": SETS[key][3], "order": h})
    sp = ctx.write_scenarios(scen)
    tp = os.path.join(ctx.work, "trace.ndjson")
    ctx.dv_world(sp, tp, nproc=4, sub="pipeline")
    cfgt = "CONSTANTS\n  KNOWN = {%s}\nSPECIFICATION TSpec\nINVARIANT Monitors\nPOSTCONDITION Reached\nCHECK_DEADLOCK FALSE\n" % (
        ", ".join('"%s"' % k for k in known_ids))
    res = ctx.validate(D, "Trace_Pipeline", cfgt, tp, "val", chunk=400, max_fail=6)
    by_sid = {sc["sid"]: sc for sc in scen}
    overlap = 0
    for x in res:
        sc = by_sid[x["sid"]]
        if x["ok"]:
            ctx.cov["traces_validated_against_impl"] += 1
            for dv in x["devs"]:
                ctx.cov["deviations_observed"][dv] = ctx.cov["deviations_observed"].get(dv, 0) + 1
                ctx.known_finding(dv, next(f.get("what", "") for f in ctx.known if f["id"] == dv))
        else:
            ctx.violation(x["reason"], {"property": "C16", "scenario": sc, "reason": x["reason"], "trace": x["lines"]})
        o = sc["order"]
        if [p["ph"] for p in o[:2]] == ["R", "R"] or any(o[i]["ph"] == "R" and i > 0 and any(q["ph"] == "R" for q in o[:i]) and not all(any(w["ph"] == "W" and w["m"] == q["m"] for w in o[:i]) for q in o[:i] if q["ph"] == "R") for i in range(len(o))):
            overlap += 1
    for sc in scen[:3]:
        ctx.cov["samples"].append(sc)
    ctx.assumptions += ["the phases are executed one at a time in the order of the interleaving (deterministic); the rooms used by the validation phase are loaded the way start-up loads them",
                        "field assignments only (no reference add/replace, no room move)"]
    return ctx.finish("model_checking", "every interleaving of the read/validate/write phases of 2 (quick) or 2-3 (thorough) mutations of one row, enumerated by TLC; "
                      "non-trivial = interleavings in which a mutation is read while another one is between its read and its write", overlap, exhaustive=not replay)
