"""C18 - every committed change is announced.
spec/events/Events.tla (pipeline model: db actor, reader pool, authorisation actor, batching writer; stream race),
Gen_Events (scenarios), Trace_Events (changed triples must be announced before their dirty mark disappears / the scenario ends)"""
import json
import os
import vlib

D = os.path.join(vlib.SPEC, "events")


def ev_cfg(n, mb, dev):
    return "CONSTANTS\n  NMut = %d\n  MaxBatch = %d\n  DEV = {%s}\nSPECIFICATION Spec\nINVARIANT AnnouncedAtQuiescence\nCHECK_DEADLOCK FALSE\n" % (n, mb, ", ".join('"%s"' % d for d in dev))


def to_scenario(sid, hist):
    peers = ["p1", "p2"]
    steps = [{"op": "tick", "d": 0, "k": 1}, {"op": "room", "p": "p1", "room": "R1"}, {"op": "pull", "p": "p2", "q": "p1", "room": "R1"},
             {"op": "tick", "d": 0, "k": 2}, {"op": "room", "p": "p1", "room": "R2"}, {"op": "pull", "p": "p2", "q": "p1", "room": "R2"}]
    d, k = 0, 10
    for h in hist:
        if h["op"] == "day":
            d, k = d + 1, 1
            continue
        k += 1
        steps.append({"op": "tick", "d": d, "k": k})
        st = dict(h)
        st.setdefault("room", "R1")
        if st["op"] in ("put", "move"):
            st["text"] = "t%d" % k
        if st["op"] == "stream":
            st["items"] = [{"row": r, "ent": "A" if r in ("x1", "x2") else "B", "text": "s%d%s" % (k, r)} for r in sorted(st.pop("rows"))]
        if st["op"] == "pull":
            st["norecompute"] = True      # the library's own recomputation request is what is being checked
            if st.pop("abort"):
                st["abort"] = 0
            # both rooms are synchronised
            steps.append(st)
            k += 1
            steps.append({"op": "tick", "d": d, "k": k})
            st = dict(st)
            st["room"] = "R2"
        steps.append(st)
    # announcements are asynchronous: two quiet observations at the end
    steps += [{"op": "idle", "p": "p1"}, {"op": "idle", "p": "p1"}]
    return {"sid": sid, "peers": peers, "users": {p: "u1" for p in peers}, "steps": steps, "hist": hist, "events": True}


def run(ctx, replay):
    quick = ctx.tier == "quick"
    ctx.build()
    known_ids = [f["id"] for f in ctx.known]
    if replay:
        scen = [json.load(open(replay))["scenario"]]
    else:
        ctx.model_check(D, "Events", ev_cfg(3 if quick else 4, 2 if quick else 3, []), "design")
        ctx.expect_counterexample(D, "Events", ev_cfg(3, 2, ["StreamRecomputeOvertakesWrites"]), "cex_stream")
        scen = []
        n = 0
        for (depth, num) in ([(6, 60), (9, 60)] if quick else [(6, 400), (9, 500), (12, 300)]):
            hs = ctx.generate(D, "Gen_Events", "CONSTANTS\n  MaxLen = %d\n  Mode = \"sim\"\nSPECIFICATION GSpec\nINVARIANT Emit\nCHECK_DEADLOCK FALSE\n" % depth,
                              "sim_%d" % depth, workers=1, simulate="num=%d" % num, depth=depth, timeout=300)
            for h in hs:
                n += 1
                scen.append(to_scenario(n, h))
    sp = ctx.write_scenarios(scen)
    tp = os.path.join(ctx.work, "trace.ndjson")
    ctx.dv_world(sp, tp)
    cfg = "CONSTANTS\n  KNOWN = {%s}\nSPECIFICATION TSpec\nINVARIANT Monitors\nPOSTCONDITION Reached\nCHECK_DEADLOCK FALSE\n" % (
        ", ".join('"%s"' % k for k in known_ids))
    res = ctx.validate(D, "Trace_Events", cfg, tp, "val", chunk=100, max_fail=5)
    by_sid = {sc["sid"]: sc for sc in scen}
    traces = {t["sid"]: t for t in vlib.split_trace(tp)}
    nontrivial = set()
    for x in res:
        sc = by_sid[x["sid"]]
        if x["ok"]:
            ctx.cov["traces_validated_against_impl"] += 1
            for dv in x["devs"]:
                ctx.cov["deviations_observed"][dv] = ctx.cov["deviations_observed"].get(dv, 0) + 1
                ctx.known_finding(dv, next(f.get("what", "") for f in ctx.known if f["id"] == dv))
        else:
            ctx.violation(x["reason"], {"property": "C18", "scenario": sc, "reason": x["reason"], "trace": x["lines"]})
        ops = set(h["op"] for h in sc["hist"])
        if len(ops & {"stream", "pull", "del"}) >= 2:
            nontrivial.add(json.dumps(sc["hist"]))

    def strip(e):
        e = dict(e)
        e.pop("st", None)
        return e
    for sc in scen[:2]:
        ctx.cov["samples"].append({"scenario": sc["hist"], "first_events": [strip(json.loads(x)) for x in traces[sc["sid"]]["lines"][:8]]})
    ctx.assumptions += ["one subscriber per instance, subscribed before the scenario and drained after every operation (never lags the 16-slot channel)",
                        "quiescence is reached through barriers (db actor, writer, event service), never by waiting"]
    return ctx.finish("model_checking", "scenarios = TLC simulation of Gen_Events (single and streamed creations, updates, deletions, days, complete and interrupted pulls); "
                      "non-trivial = distinct histories mixing at least two of stream / pull / deletion", len(nontrivial))
