"""C15 - changing the data model never loses data and a refused change changes nothing.
spec/datamodel: DataModel.tla (compatibility, positional identifiers), Gen_DataModel (version sequences), Trace_DataModel;
harness: dv datamodel (parser alone x16 instances, running instance with data, restart)."""
import json
import os
import vlib

D = os.path.join(vlib.SPEC, "datamodel")


def render(v):
    ents = []
    for e in v:
        fs = []
        for f in e["fields"]:
            t = f["type"]
            s = "%s: %s" % (f["name"], t)
            if f["nullable"]:
                s += " nullable"
            if f["hasdef"]:
                s += ' default "d"' if t == "String" else " default 7"
            fs.append(s)
        ents.append("%s { %s }" % (e["name"], ", ".join(fs)))
    return "v { " + " ".join(ents) + " }"


def run(ctx, replay):
    quick = ctx.tier == "quick"
    ctx.build()
    known_ids = [f["id"] for f in ctx.known]
    if replay:
        scen = [json.load(open(replay))["scenario"]]
    else:
        ctx.model_check(D, "Gen_DataModel", "CONSTANTS\n  MaxLen = %d\nSPECIFICATION GSpec\nCONSTRAINT Bound\nINVARIANTS IdsInjective OldRowsReadable\nPROPERTY IdsKept\nCHECK_DEADLOCK FALSE\n" % (3 if quick else 4),
                        "spec", timeout=2400)
        scen = []
        n = 0
        for (depth, num) in ([(3, 60), (5, 40)] if quick else [(3, 300), (5, 400), (7, 200)]):
            hs = ctx.generate(D, "Gen_DataModel", "CONSTANTS\n  MaxLen = %d\nSPECIFICATION GSpec\nINVARIANT Emit\nCHECK_DEADLOCK FALSE\n" % depth,
                              "ver_%d" % depth, workers=1, simulate="num=%d" % num, depth=depth, timeout=300, limit=num)
            for h in hs:
                n += 1
                scen.append({"sid": n, "abstract": h, "versions": [render(v) for v in h]})
    sp = ctx.write_scenarios(scen)
    tp = os.path.join(ctx.work, "trace.ndjson")
    ctx.dv_world(sp, tp, nproc=4, sub="datamodel")
    cfg = "CONSTANTS\n  KNOWN = {%s}\nSPECIFICATION TSpec\nINVARIANT Monitors\nPOSTCONDITION Reached\nCHECK_DEADLOCK FALSE\n" % (
        ", ".join('"%s"' % k for k in known_ids))
    res = ctx.validate(D, "Trace_DataModel", cfg, tp, "val", chunk=100, max_fail=6)
    by_sid = {sc["sid"]: sc for sc in scen}
    traces = {t["sid"]: t for t in vlib.split_trace(tp)}
    nontrivial = set()
    for x in res:
        sc = by_sid[x["sid"]]
        if x["ok"]:
            ctx.cov["traces_validated_against_impl"] += 1
            for dv in x["devs"]:
                ctx.cov["deviations_observed"][dv] = ctx.cov["deviations_observed"].get(dv, 0) + 1
                ctx.known_finding(dv, next(f.get("what", "") for f in ctx.known if f["id"] == dv))
        else:
            ctx.violation(x["reason"], {"property": "C15", "scenario": sc, "reason": x["reason"], "trace": x["lines"]})
        lines = traces[x["sid"]]["lines"]
        if any('"res":"ok"' in ln and '"ev":"version"' in ln for ln in lines) and any('"live":{"res":"err"' in ln for ln in lines):
            nontrivial.add(json.dumps(sc["versions"]))
    for sc in scen[:2]:
        ctx.cov["samples"].append(sc["versions"])
    ctx.assumptions += ["one namespace, scalar fields String / Integer, index changes and deprecations not generated",
                        "hash-map order explored by 16 parser instances per proposal"]
    return ctx.finish("model_checking", "scenarios = TLC simulation of Gen_DataModel (valid and invalid edits, each based on the last version the specification accepts); "
                      "non-trivial = distinct sequences containing both an accepted and a refused version", len(nontrivial))
