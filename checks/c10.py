"""C10 - a room means the same live, after restart, and on a peer that imports it.
spec/auth: Gen_RoomHist (room histories), Trace_RoomPaths (abstract room from the accepted mutations, decisions via Auth.tla);
harness op roompaths: decisions of the Room objects obtained through each path, restarts on the same folder."""
import json
import os
import vlib

D = os.path.join(vlib.SPEC, "auth")


def to_scenario(sid, hist):
    steps = [{"op": "tick", "d": 0, "k": 1}]
    d, k = 0, 10
    dates = []
    imp = "i%d" % sid

    def paths():
        probe = sorted(set(dates + [x + 1 for x in dates] + [d * 1000 + k + 5]))
        steps.append({"op": "roompaths", "p": "p1", "room": "R1", "dates": probe, "importer": imp})
    for h in hist:
        if h["op"] == "day":
            d, k = d + 1, 1
            continue
        if h["op"] == "cut":
            paths()
            continue
        k += 1
        steps.append({"op": "tick", "d": d, "k": k})
        dates.append(d * 1000 + k)
        if h["op"] == "roomupd" and h["p"] != "p1":
            # an update made on another instance: that instance reads the room first, the defining instance reads the update afterwards
            steps.append({"op": "pull", "p": h["p"], "q": "p1", "room": "R1"})
            steps.append(dict(h))
            steps.append({"op": "pull", "p": "p1", "q": h["p"], "room": "R1"})
            continue
        steps.append(dict(h))
    paths()
    return {"sid": sid, "peers": ["p1", "p2", "p3"], "users": {"p1": "u1", "p2": "u2", "p3": "u3"}, "steps": steps, "hist": hist}


def run(ctx, replay):
    quick = ctx.tier == "quick"
    ctx.build()
    known_ids = [f["id"] for f in ctx.known]
    if replay:
        scen = [json.load(open(replay))["scenario"]]
    else:
        ctx.model_check(D, "MC_Auth", "CONSTANTS\n  MaxDate = 2\n  MaxEntries = %d\nSPECIFICATION Spec\nINVARIANTS PastIsImmutable AllImpliesSelf\nCHECK_DEADLOCK FALSE\n" % (3 if quick else 4),
                        "auth", timeout=2400)
        scen = []
        n = 0
        for (depth, num) in ([(5, 30), (9, 50)] if quick else [(5, 200), (9, 400), (13, 300)]):
            hs = ctx.generate(D, "Gen_RoomHist", "CONSTANTS\n  MaxLen = %d\n  WithAttack = FALSE\n  SecondActor = TRUE\nSPECIFICATION GSpec\nINVARIANT Emit\nCHECK_DEADLOCK FALSE\n" % depth,
                              "hist_%d" % depth, workers=1, simulate="num=%d" % num, depth=depth, timeout=300, limit=num)
            for h in hs:
                n += 1
                scen.append(to_scenario(n, h))
        # directed: an entry written by a second actor while it holds a role, read after it lost the role and after later changes
        hs = ctx.generate(D, "Gen_RoomSigner", "SPECIFICATION Spec\nINVARIANT Emit\nCHECK_DEADLOCK FALSE\n", "signer", workers=1, timeout=600,
                          limit=None)
        if quick:
            # all histories in which the actor loses its role while an importer holds an earlier version; a sample of the others
            def core(h):
                revoked = any(o["op"] == "roomupd" and o["p"] == "p1" and o["user"] == "u3" and not o["enabled"] for o in h)
                ops = [o["op"] for o in h]
                early = "cut" in ops and ops.index("cut") < max(i for i, o in enumerate(h) if o["op"] == "roomupd" and o["p"] == "p1" and o["user"] == "u3" and not o["enabled"]) if revoked else False
                return revoked and early
            import random
            rnd = random.Random(ctx.seed)
            rest = [h for h in hs if not core(h)]
            hs = [h for h in hs if core(h)] + rnd.sample(rest, min(40, len(rest)))
        for h in hs:
            n += 1
            scen.append(to_scenario(n, h))
    sp = ctx.write_scenarios(scen)
    tp = os.path.join(ctx.work, "trace.ndjson")
    ctx.dv_world(sp, tp)
    cfg = "CONSTANTS\n  KNOWN = {%s}\nSPECIFICATION TSpec\nINVARIANT Monitors\nPOSTCONDITION Reached\nCHECK_DEADLOCK FALSE\n" % (
        ", ".join('"%s"' % k for k in known_ids))
    res = ctx.validate(D, "Trace_RoomPaths", cfg, tp, "val", chunk=60, max_fail=6)
    by_sid = {sc["sid"]: sc for sc in scen}
    nontrivial = set()
    for x in res:
        sc = by_sid[x["sid"]]
        if x["ok"]:
            ctx.cov["traces_validated_against_impl"] += 1
            for dv in x["devs"]:
                ctx.cov["deviations_observed"][dv] = ctx.cov["deviations_observed"].get(dv, 0) + 1
                ctx.known_finding(dv, next(f.get("what", "") for f in ctx.known if f["id"] == dv))
        else:
            ctx.violation(x["reason"], {"property": "C10", "scenario": sc, "reason": x["reason"], "trace": x["lines"]})
        users = [h for h in sc["hist"] if h["op"] == "roomupd" and h["what"] in ("user", "uadmin", "admin")]
        if len(set((h["what"], h["user"], h.get("g")) for h in users)) < len(users):
            nontrivial.add(json.dumps(sc["hist"]))      # some user has several entries
    for sc in scen[:2]:
        ctx.cov["samples"].append(sc["hist"])
    ctx.assumptions += ["the live room is the one carried by the room-modified event; the reload path is the start-up query + load_json evaluated on the running instance, plus a real start() on the same folder",
                        "decisions probed at every entry date and the following millisecond, for 3 users, 2 entities, both rights, admin / member / user-admin"]
    return ctx.finish("model_checking", "scenarios = TLC simulation of Gen_RoomHist (room + updates over days, exported at a cut and at the end, imported by a fresh then by the same instance); "
                      "non-trivial = distinct histories in which some user has several entries in one list", len(nontrivial))
