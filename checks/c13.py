"""C13 - writes are atomic, durable once acknowledged, and leave the log repairable.
spec/writer: Writer.tla (batches, transaction, failures, crash), Gen_Writer (workload x fault point x hit x kind), Trace_Writer;
harness: dv writer (child process per run, killed or failed at an instrumented point; the parent reopens the folder)."""
import json
import os
import vlib

D = os.path.join(vlib.SPEC, "writer")


def wr_cfg(nreq, mb, dev, inv="Atomic AckedIsDurable FailedHasNoEffect MarksCommittedWithData WriterStaysUsable UnloggedIsMarked LogCountsOnlyStored RepairedByRecompute"):
    return "CONSTANTS\n  Req = {%s}\n  MaxBatch = %d\n  DEV = {%s}\nSPECIFICATION Spec\nINVARIANTS %s\nCHECK_DEADLOCK FALSE\n" % (
        ", ".join("r%d" % i for i in range(1, nreq + 1)), mb, ", ".join('"%s"' % d for d in dev), inv)


def run(ctx, replay):
    quick = ctx.tier == "quick"
    ctx.build()
    known_ids = [f["id"] for f in ctx.known]
    if replay:
        scen = [json.load(open(replay))["scenario"]]
    else:
        ctx.model_check(D, "Writer", wr_cfg(3 if quick else 4, 2 if quick else 3, []), "design")
        ctx.expect_counterexample(D, "Writer", wr_cfg(3, 2, ["FailureLeavesTxnOpen"]), "cex_txnopen")
        # the marks outside the transaction: a crash between the commit and the marks leaves content the log never counts
        ctx.expect_counterexample(D, "Writer", wr_cfg(2, 2, ["MarksAfterCommit"], "UnloggedIsMarked"), "cex_marks_late")
        hs = ctx.generate(D, "Gen_Writer", "SPECIFICATION Spec\nINVARIANT Emit\nCHECK_DEADLOCK FALSE\n", "faults", workers=1, timeout=300, limit=90 if quick else None)
        scen = []
        for i, h in enumerate(hs):
            sc = dict(h)
            sc["sid"] = i + 1
            if sc["fault"]["point"] == "none":
                sc.pop("fault")
            scen.append(sc)
    sp = ctx.write_scenarios(scen)
    tp = os.path.join(ctx.work, "trace.ndjson")
    ctx.dv_world(sp, tp, nproc=6, sub="writer")
    cfg = "CONSTANTS\n  KNOWN = {%s}\nSPECIFICATION TSpec\nINVARIANT Monitors\nPOSTCONDITION Reached\nCHECK_DEADLOCK FALSE\n" % (
        ", ".join('"%s"' % k for k in known_ids))
    res = ctx.validate(D, "Trace_Writer", cfg, tp, "val", chunk=200, max_fail=6)
    by_sid = {sc["sid"]: sc for sc in scen}
    traces = {t["sid"]: t for t in vlib.split_trace(tp)}
    classes = set()
    killed = 0
    for x in res:
        sc = by_sid[x["sid"]]
        if x["ok"]:
            ctx.cov["traces_validated_against_impl"] += 1
            for dv in x["devs"]:
                ctx.cov["deviations_observed"][dv] = ctx.cov["deviations_observed"].get(dv, 0) + 1
                ctx.known_finding(dv, next(f.get("what", "") for f in ctx.known if f["id"] == dv))
        else:
            ctx.violation(x["reason"], {"property": "C13", "scenario": sc, "reason": x["reason"], "trace": x["lines"]})
        run_ev = json.loads(traces[x["sid"]]["lines"][1])
        f = run_ev["fault"]
        fired = (f["kind"] == "abort" and not run_ev["done"]) or (f["kind"] == "error" and any(a["res"] == "err" for a in run_ev["acks"]))
        if fired:
            classes.add((f["point"], f["hit"], f["kind"], len(run_ev["workload"]), run_ev["concurrent"]))
            killed += 1 if f["kind"] == "abort" else 0
    for sc in scen[:2]:
        ctx.cov["samples"].append({"scenario": sc, "run": json.loads(traces[sc["sid"]]["lines"][1])})
    ctx.cov["runs_in_which_the_fault_fired"] = len(classes)
    ctx.cov["child_processes_killed"] = killed
    ctx.assumptions += ["process death only (abort); power loss / OS crash durability of synchronous=NORMAL is not observable here",
                        "faults are injected at 8 instrumented points of the write path, 1st-3rd hit"]
    return ctx.finish("fault_enumeration", "every initial state of Gen_Writer (4 workloads x sequential/concurrent x fault point x hit x kill/error), sampled in the quick tier; "
                      "non-trivial = distinct runs in which the fault actually fired (process killed before DONE, or a request reported failed)", len(classes),
                      exhaustive=not quick and not replay)
