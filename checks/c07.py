"""C07 - a room definition accepted from a peer only adds entitled entries.
spec/auth: Gen_RoomHist with WithAttack (history + one adversarial candidate), Trace_RoomMerge (decisions of the receiver's room
must be those of an honest history, plus the entry when its signer was entitled); harness op forge."""
import json
import os
import vlib

D = os.path.join(vlib.SPEC, "auth")


def to_scenario(sid, hist):
    steps = [{"op": "tick", "d": 0, "k": 1}]
    d, k = 0, 10
    dates = []

    def probe():
        return sorted(set(dates + [x + 1 for x in dates] + [d * 1000 + k + 3, d * 1000 + k + 9]))
    for h in hist:
        if h["op"] == "day":
            d, k = d + 1, 1
            continue
        k += 1
        steps.append({"op": "tick", "d": d, "k": k})
        dates.append(d * 1000 + k)
        if h["op"] == "cut":
            steps.append({"op": "offer", "from": "p1", "to": "p2", "room": "R1"})     # honest import of the earlier version
            continue
        if h["op"] == "forge":
            st = dict(h)
            st.update({"from": "p1", "to": "p2", "room": "R1", "dates": probe()})
            steps.append(st)
            k += 1
            steps.append({"op": "tick", "d": d, "k": k})
            dates.append(d * 1000 + k)
            # afterwards an honest candidate must still be accepted and give the honest decisions
            steps.append({"op": "forge", "kind": "honest", "by": "u1", "g": "g1", "user": "u3", "from": "p1", "to": "p2", "room": "R1", "dates": probe()})
            continue
        steps.append(dict(h))
    return {"sid": sid, "peers": ["p1", "p2", "p3"], "users": {"p1": "u1", "p2": "u2", "p3": "u3"}, "steps": steps, "hist": hist}


def run(ctx, replay):
    quick = ctx.tier == "quick"
    ctx.build()
    known_ids = [f["id"] for f in ctx.known]
    if replay:
        scen = [json.load(open(replay))["scenario"]]
    else:
        ctx.model_check(D, "MC_Auth", "CONSTANTS\n  MaxDate = 2\n  MaxEntries = %d\nSPECIFICATION Spec\nINVARIANTS PastIsImmutable AllImpliesSelf\nCHECK_DEADLOCK FALSE\n" % (3 if quick else 4),
                        "auth", timeout=2400)
        scen = []
        n = 0
        for (depth, num) in ([(4, 60), (7, 100)] if quick else [(4, 300), (7, 600), (10, 400)]):
            hs = ctx.generate(D, "Gen_RoomHist", "CONSTANTS\n  MaxLen = %d\n  WithAttack = TRUE\n  SecondActor = FALSE\nSPECIFICATION GSpec\nINVARIANT Emit\nCHECK_DEADLOCK FALSE\n" % depth,
                              "hist_%d" % depth, workers=1, simulate="num=%d" % (num * 3), depth=depth + 2, timeout=300, limit=num)
            for h in hs:
                n += 1
                scen.append(to_scenario(n, h))
    sp = ctx.write_scenarios(scen)
    tp = os.path.join(ctx.work, "trace.ndjson")
    ctx.dv_world(sp, tp)
    cfg = "CONSTANTS\n  KNOWN = {%s}\nSPECIFICATION TSpec\nINVARIANT Monitors\nPOSTCONDITION Reached\nCHECK_DEADLOCK FALSE\n" % (
        ", ".join('"%s"' % k for k in known_ids))
    res = ctx.validate(D, "Trace_RoomMerge", cfg, tp, "val", chunk=60, max_fail=6)
    by_sid = {sc["sid"]: sc for sc in scen}
    classes = set()
    for x in res:
        sc = by_sid[x["sid"]]
        if x["ok"]:
            ctx.cov["traces_validated_against_impl"] += 1
            for dv in x["devs"]:
                ctx.cov["deviations_observed"][dv] = ctx.cov["deviations_observed"].get(dv, 0) + 1
                ctx.known_finding(dv, next(f.get("what", "") for f in ctx.known if f["id"] == dv))
        else:
            ctx.violation(x["reason"], {"property": "C07", "scenario": sc, "reason": x["reason"], "trace": x["lines"]})
        f = [h for h in sc["hist"] if h["op"] == "forge"]
        if f:
            classes.add((f[0]["kind"], f[0]["by"], f[0]["g"], any(h["op"] == "cut" for h in sc["hist"])))
    for sc in scen[:2]:
        ctx.cov["samples"].append(sc["hist"])
    ctx.assumptions += ["one adversarial change per candidate, signed with a real member / non-member key; cross-room replay is not generated",
                        "decisions probed on a grid of dates around every entry"]
    return ctx.finish("model_checking", "scenarios = TLC simulation of Gen_RoomHist ending with one adversarial candidate (9 kinds x signer x group), with or without an earlier honest import; "
                      "non-trivial = distinct (kind, signer, group, earlier import) classes", len(classes))
