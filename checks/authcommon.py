"""shared by C01 / C12: scenarios of spec/auth/Gen_LocalWrite turned into dv world scenarios of three users"""
import os
import vlib

D = os.path.join(vlib.SPEC, "auth")


def to_scenario(sid, hist, extra=None):
    peers = ["p1", "p2", "p3"]
    steps = [{"op": "tick", "d": 0, "k": 1}]
    d, k = 0, 10
    rooms = []
    for h in hist:
        if h["op"] == "day":
            d, k = d + 1, 1
            continue
        k += 1
        steps.append({"op": "tick", "d": d, "k": k})
        st = dict(h)
        if st["op"] == "roomdef":
            rooms.append(st["room"])
            steps.append(st)
            for p in peers[1:]:
                steps.append({"op": "pull", "p": p, "q": "p1", "room": st["room"]})
            continue
        if st["op"] == "ship":
            if st["p"] == st["q"]:
                continue
            for r in rooms:
                steps.append({"op": "pull", "p": st["p"], "q": st["q"], "room": r})
            continue
        if st["op"] in ("put", "move"):
            # (a mutation that only names another room changes nothing: a move also writes a field)
            st["text"] = "t%d" % k
        steps.append(st)
    sc = {"sid": sid, "peers": peers, "users": {"p1": "u1", "p2": "u2", "p3": "u3"}, "steps": steps, "hist": hist, "defs": True}
    if extra:
        sc.update(extra)
    return sc


def gen(ctx, depth, num, name):
    return ctx.generate(D, "Gen_LocalWrite", "CONSTANTS\n  MaxLen = %d\nSPECIFICATION GSpec\nINVARIANT Emit\nCHECK_DEADLOCK FALSE\n" % depth,
                        name, workers=1, simulate="num=%d" % num, depth=depth, timeout=300, limit=num)


def focus(ctx, limit):
    """exhaustive product (room rights x author x caller x operation shape x definition change before the operation), one scenario per
    initial state of Gen_Focus; with a limit, a sample that keeps every (operation, change, same author, rights present) class represented"""
    hs = ctx.generate(D, "Gen_Focus", "SPECIFICATION Spec\nINVARIANT Emit\nCHECK_DEADLOCK FALSE\n", "focus", workers=1, timeout=600)
    if limit is None or len(hs) <= limit:
        return hs
    import random
    rnd = random.Random(ctx.seed)
    strata = {}
    for h in hs:
        upd = [o for o in h if o["op"] == "roomupd"]
        puts = [o for o in h if o["op"] == "put"]
        key = (h[-1]["op"], h[-1].get("row"), (upd[0]["room"], upd[0]["what"], upd[0]["self"], upd[0]["enabled"]) if upd else None,
               puts[0]["p"] == h[-1]["p"], bool(h[0]["groups"][0]["rights"]), bool(h[1]["groups"][0]["rights"]))
        strata.setdefault(key, []).append(h)
    out = []
    for key in sorted(strata, key=str):
        # a move is decided by two rooms: more samples where a definition changed before it
        want = 3 if key[0] == "move" and key[2] is not None else 1
        out += rnd.sample(strata[key], min(want, len(strata[key])))
    if len(out) > limit:
        out = rnd.sample(out, limit)
    return out
