"""C02 - rows received from peers are stored only if their author had the right.
spec/ingest/Gen_Ingest.tla (every single adversarial item over a small universe), Trace_Ingest.tla (oracle with Auth.tla);
the harness builds and signs the items with the users' keys and pushes them through the ingestion entry points."""
import json
import os
import vlib

D = os.path.join(vlib.SPEC, "auth")
DA = os.path.join(vlib.SPEC, "auth")


def R(e, s, a):
    return {"ent": e, "self": s, "all": a}


PREP = [
    {"op": "tick", "d": 0, "k": 10},
    {"op": "roomdef", "p": "p1", "room": "R1", "admins": ["u1"], "groups": [
        {"g": "g1", "rights": [R("A", True, False)], "users": ["u2"], "uadmins": []},
        {"g": "g2", "rights": [R("*", True, True)], "users": ["u1"], "uadmins": []}]},
    {"op": "roomdef", "p": "p1", "room": "R2", "admins": ["u1"], "groups": [
        {"g": "g1", "rights": [R("A", True, True)], "users": ["u2"], "uadmins": []},
        {"g": "g2", "rights": [R("*", True, True)], "users": ["u1"], "uadmins": []}]},
    {"op": "offer", "from": "p1", "to": "p2", "room": "R1"}, {"op": "offer", "from": "p1", "to": "p2", "room": "R2"},
    {"op": "tick", "d": 0, "k": 20}, {"op": "put", "p": "p1", "row": "x1", "ent": "A", "room": "R1", "text": "honest1"},
    {"op": "tick", "d": 0, "k": 21}, {"op": "put", "p": "p2", "row": "x2", "ent": "A", "room": "R1", "text": "honest2"},
    {"op": "tick", "d": 0, "k": 22}, {"op": "put", "p": "p1", "row": "x4", "ent": "A", "room": "R2", "text": "honest4"},
    {"op": "tick", "d": 0, "k": 23}, {"op": "put", "p": "p2", "row": "x5", "ent": "A", "room": "R2", "text": "honest5"},
    {"op": "offer", "from": "p1", "to": "p2", "room": "R1"},
    {"op": "tick", "d": 0, "k": 24}, {"op": "ref", "p": "p2", "row": "x2", "to": "x1", "ent": "A", "tent": "A"},
    {"op": "offer", "from": "p2", "to": "p1", "room": "R1"}, {"op": "offer", "from": "p2", "to": "p1", "room": "R2"},
    {"op": "tick", "d": 0, "k": 50}, {"op": "roomupd", "p": "p1", "room": "R1", "g": "g1", "what": "user", "user": "u2", "enabled": False},
    {"op": "tick", "d": 1, "k": 500},
]


def to_scenario(sid, hist):
    return {"sid": sid, "peers": ["p1", "p2"], "users": {"p1": "u1", "p2": "u2"}, "steps": PREP + hist, "hist": hist, "defs": True}


def run(ctx, replay):
    quick = ctx.tier == "quick"
    ctx.build()
    known_ids = [f["id"] for f in ctx.known]
    if replay:
        scen = [json.load(open(replay))["scenario"]]
    else:
        ctx.model_check(DA, "MC_Auth", "CONSTANTS\n  MaxDate = 2\n  MaxEntries = 3\nSPECIFICATION Spec\nINVARIANTS PastIsImmutable AllImpliesSelf\nCHECK_DEADLOCK FALSE\n", "auth", timeout=2400)
        hs = ctx.generate(D, "Gen_Ingest", "SPECIFICATION Spec\nINVARIANT Emit\nCHECK_DEADLOCK FALSE\n", "items", workers=1, timeout=300, limit=220 if quick else None)
        scen = [to_scenario(i + 1, h) for i, h in enumerate(hs)]
    sp = ctx.write_scenarios(scen)
    tp = os.path.join(ctx.work, "trace.ndjson")
    ctx.dv_world(sp, tp)
    cfg = "CONSTANTS\n  KNOWN = {%s}\nSPECIFICATION TSpec\nINVARIANT Monitors\nPOSTCONDITION Reached\nCHECK_DEADLOCK FALSE\n" % (
        ", ".join('"%s"' % k for k in known_ids))
    res = ctx.validate(D, "Trace_Ingest", cfg, tp, "val", chunk=80, max_fail=6)
    by_sid = {sc["sid"]: sc for sc in scen}
    traces = {t["sid"]: t for t in vlib.split_trace(tp)}
    stored = 0
    kinds = set()
    for x in res:
        sc = by_sid[x["sid"]]
        if x["ok"]:
            ctx.cov["traces_validated_against_impl"] += 1
            for dv in x["devs"]:
                ctx.cov["deviations_observed"][dv] = ctx.cov["deviations_observed"].get(dv, 0) + 1
                ctx.known_finding(dv, next(f.get("what", "") for f in ctx.known if f["id"] == dv))
        else:
            ctx.violation(x["reason"], {"property": "C02", "scenario": sc, "reason": x["reason"], "trace": x["lines"][-3:]})
        it = sc["hist"][0]["items"][0]
        kinds.add((it["kind"], it.get("tamper"), it["author"], it["d"], it.get("stated"), sc["hist"][0]["room"]))
    for sc in scen[:3]:
        ctx.cov["samples"].append(sc["hist"])
    ctx.assumptions += ["one item per answer (batch independence is exercised by C12's whole-room offers)",
                        "oversized rows and model-violating JSON are one representative each"]
    return ctx.finish("model_checking", "scenarios = every initial state of Gen_Ingest (kind x row x stated room x synchronised room x key x date x tampering), "
                      "sampled in the quick tier; non-trivial = distinct (kind, tampering, key, date, stated room, synchronised room) classes", len(kinds), exhaustive=not quick and not replay)
