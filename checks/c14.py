"""C14 - no input crashes, wedges or confuses an instance.
spec/service: Service.tla (executors of an instance, shapes of input and the executors they travel through, unchecked assumptions),
Gen_Service (sequences of shapes), Trace_Service; harness: dv inputs (real instance, parsers, verifier pool, serving loop, peer manager);
checks/c14shapes.py instantiates the shapes."""
import json
import os
import random
import vlib
import c14shapes as cs

D = os.path.join(vlib.SPEC, "service")


def cfg(unchecked, maxlen, spec="Spec", extra=""):
    return ("CONSTANTS\n  Readers = 2\n  Verifiers = 2\n  Unchecked = {%s}\n  Rejected = {}\n  MaxLen = %d\nSPECIFICATION %s\n%sCHECK_DEADLOCK FALSE\n"
            % (", ".join('"%s"' % u for u in unchecked), maxlen, spec, extra))


INVS = "INVARIANT ResultOrError\nINVARIANT NoThreadLost\nINVARIANT AlwaysAnswers\nINVARIANT ValidExecutes\n"


def run(ctx, replay):
    quick = ctx.tier == "quick"
    ctx.build()
    known_ids = [f["id"] for f in ctx.known]
    rnd = random.Random(ctx.seed)
    if replay:
        scen = [json.load(open(replay))["scenario"]]
    else:
        ctx.model_check(D, "Service", cfg([], 3) + INVS, "design", workers=4, timeout=600)
        for u in ("param_mutation", "bad_key_or_signature", "peer_request"):
            ctx.expect_counterexample(D, "Service", cfg([u], 3) + "INVARIANT AlwaysAnswers\n", "unchecked-" + u, workers=2)
        seqs = ctx.generate(D, "Gen_Service", cfg([], 2, "GSpec", "INVARIANT Emit\nVIEW View\n"), "sequences", workers=1, timeout=900)
        base = cs.base_shapes(rnd, 40 if quick else 400)
        kw = cs.keyword_models(rnd)
        scen = []
        # every concrete input of every shape, by shape
        for name, inputs in sorted(base.items()):
            for i in range(0, len(inputs), 40):
                scen.append({"model": cs.M0, "model_valid": True, "inputs": inputs[i:i + 40], "kind": "catalogue"})
        kws = sorted(kw.items())
        if quick:
            kws = rnd.sample(kws, 10)
        for key, (model, shapes) in kws:
            for name, inputs in shapes.items():
                scen.append({"model": model, "model_valid": True, "inputs": inputs, "kind": "catalogue"})
        # sequences of shapes chosen by TLC, each shape instantiated by one of its inputs (on the base model)
        pairs = [q for q in seqs if len(q) == 2 and all(x in base for x in q)]
        if quick:
            pairs = rnd.sample(pairs, min(len(pairs), 150))
        bundle = []
        for q in pairs:
            bundle += [rnd.choice(base[x]) for x in q]
            if len(bundle) >= 40:
                scen.append({"model": cs.M0, "model_valid": True, "inputs": bundle, "kind": "sequences"})
                bundle = []
        if bundle:
            scen.append({"model": cs.M0, "model_valid": True, "inputs": bundle, "kind": "sequences"})
        for i, sc in enumerate(scen):
            sc["sid"] = i + 1
    sp = ctx.write_scenarios(scen)
    tp = os.path.join(ctx.work, "trace.ndjson")
    ctx.dv_world(sp, tp, nproc=6, sub="inputs")
    cfgt = "CONSTANTS\n  KNOWN = {%s}\nSPECIFICATION TSpec\nINVARIANT Monitors\nPOSTCONDITION Reached\nCHECK_DEADLOCK FALSE\n" % (
        ", ".join('"%s"' % k for k in known_ids))
    res = ctx.validate(D, "Trace_Service", cfgt, tp, "val", chunk=40, max_fail=8)
    by_sid = {sc["sid"]: sc for sc in scen}
    classes = set()
    ninputs = 0
    for x in res:
        sc = by_sid[x["sid"]]
        if x["ok"]:
            ctx.cov["traces_validated_against_impl"] += 1
            for dv in x["devs"]:
                ctx.cov["deviations_observed"][dv] = ctx.cov["deviations_observed"].get(dv, 0) + 1
                ctx.known_finding(dv, next(f.get("what", "") for f in ctx.known if f["id"] == dv))
        else:
            # keep the failing input (and the one before it) in the replay
            small = dict(sc)
            n = None
            for line in x["lines"]:
                try:
                    e = json.loads(line)
                except Exception:
                    continue
                if e.get("ev") == "input":
                    n = e.get("n")
            if n is not None:
                small["inputs"] = sc["inputs"][max(0, n - 1):n + 1]
            ctx.violation(x["reason"], {"property": "C14", "scenario": small, "reason": x["reason"], "trace": [l[:500] for l in x["lines"][-3:]]})
        for inp in sc["inputs"]:
            ninputs += 1
            classes.add((inp["shape"], inp["op"], bool(inp.get("valid")), (inp.get("text") or json.dumps(inp, sort_keys=True))[:60]))
    ctx.cov["inputs_run"] = ninputs
    ctx.cov["shapes"] = sorted({i["shape"] for sc in scen for i in sc["inputs"]})
    ctx.cov["samples"].append({k: (v if not isinstance(v, str) else v[:100]) for k, v in scen[0]["inputs"][0].items()})
    ctx.assumptions += ["truncated or oversized frames on a QUIC stream are not exercised (needs a network); the values carried by frames are decoded from arbitrary bytes instead",
                        "a search term is valid for the FTS5 query syntax or refused by it: an FTS5 syntax error is counted as an error, not as a rejected valid request",
                        "queries nested deeper than the storage engine's parser stack are counted as refused"]
    return ctx.finish("model_checking", "every concrete input of every shape of Service.tla (catalogue in checks/c14shapes.py, mutants drawn with the seed) on a real instance, "
                      "keyword / digit-first / non-ASCII identifiers in every identifier position, and TLC-generated pairs of shapes; a probe of every executor after each input; "
                      "non-trivial = distinct (shape, entry point, validity, text)", len(classes), exhaustive=False)
