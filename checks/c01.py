"""C01 - local writes are applied only with the room's rights at that time.
spec/auth/Auth.tla (decision function), Gen_LocalWrite (room configurations x operation shapes), Trace_LocalWrite (monitor)"""
import json
import os
import vlib
import authcommon

D = authcommon.D


def run(ctx, replay):
    quick = ctx.tier == "quick"
    ctx.build()
    known_ids = [f["id"] for f in ctx.known]
    if replay:
        scen = [json.load(open(replay))["scenario"]]
    else:
        ctx.model_check(D, "MC_Auth", "CONSTANTS\n  MaxDate = 2\n  MaxEntries = %d\nSPECIFICATION Spec\nINVARIANTS PastIsImmutable AllImpliesSelf\nCHECK_DEADLOCK FALSE\n" % (3 if quick else 4),
                        "auth", timeout=2400)
        scen = []
        n = 0
        for h in authcommon.focus(ctx, 300 if quick else None):
            n += 1
            scen.append(authcommon.to_scenario(n, h))
        for (depth, num) in ([(10, 40), (16, 40)] if quick else [(10, 500), (16, 500), (22, 300)]):
            for h in authcommon.gen(ctx, depth, num, "sim_%d" % depth):
                n += 1
                scen.append(authcommon.to_scenario(n, h))
    sp = ctx.write_scenarios(scen)
    tp = os.path.join(ctx.work, "trace.ndjson")
    ctx.dv_world(sp, tp)
    cfg = "CONSTANTS\n  KNOWN = {%s}\nSPECIFICATION TSpec\nINVARIANT Monitors\nPOSTCONDITION Reached\nCHECK_DEADLOCK FALSE\n" % (
        ", ".join('"%s"' % k for k in known_ids))
    res = ctx.validate(D, "Trace_LocalWrite", cfg, tp, "val", chunk=60, max_fail=5)
    by_sid = {sc["sid"]: sc for sc in scen}
    traces = {t["sid"]: t for t in vlib.split_trace(tp)}
    nontrivial = set()
    acc = ref = 0
    for x in res:
        sc = by_sid[x["sid"]]
        if x["ok"]:
            ctx.cov["traces_validated_against_impl"] += 1
            for dv in x["devs"]:
                ctx.cov["deviations_observed"][dv] = ctx.cov["deviations_observed"].get(dv, 0) + 1
                ctx.known_finding(dv, next(f.get("what", "") for f in ctx.known if f["id"] == dv))
        else:
            ctx.violation(x["reason"], {"property": "C01", "scenario": sc, "reason": x["reason"], "trace": x["lines"]})
        t = traces.get(x["sid"])
        if t:
            a = sum(1 for ln in t["lines"] if any('"ev":"%s"' % o in ln for o in ("put", "move", "del", "ref", "unref")) and '"res":"ok"' in ln)
            b = sum(1 for ln in t["lines"] if any('"ev":"%s"' % o in ln for o in ("put", "move", "del", "ref", "unref")) and '"err":"other"' in ln)
            acc += a
            ref += b
            if a >= 1 and b >= 1:
                nontrivial.add(json.dumps(sc["hist"]))

    def strip(e):
        e = dict(e)
        e.pop("st", None)
        e.pop("defs", None)
        return e
    for sc in scen[:2]:
        ctx.cov["samples"].append({"scenario": sc["hist"][:6], "first_events": [strip(json.loads(x)) for x in traces[sc["sid"]]["lines"][:6]]})
    ctx.cov["operations_accepted"] = acc
    ctx.cov["operations_refused_for_rights"] = ref
    ctx.assumptions += ["the room definitions the acting instance decides with are those it stores (their equality with the in-memory rooms is C10)",
                        "3 users, 2 rooms, 2 groups, entities A B and the wildcard, dates over 2-3 days"]
    return ctx.finish("model_checking", "scenarios = TLC simulation of Gen_LocalWrite (two rooms drawn from a menu of right/membership configurations, every local operation shape, "
                      "room updates, pulls carrying rows between users); non-trivial = distinct histories with at least one accepted and one rights-refused operation", len(nontrivial))
