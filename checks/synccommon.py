"""C03 / C11 - shared driver: spec/sync/Sync.tla (design + deviations), Gen_Sync (scenarios),
dv world (real peers wired back to back), Trace_Sync (monitors + attribution)."""
import json
import os
import vlib

D = os.path.join(vlib.SPEC, "sync")
ALLDEV = ["IngestIgnoresTombstone", "EdgesOnlyWithNewerNode", "DefLogSingleEntity", "TombstoneDeletesAnyVersion"]
MV = "  a = a\n  b = b\n  c = c\n  x = x\n  y = y\n  z = z\n  A = A\n  B = B\n"


def consts(peers, rows3, maxver, maxday, dev):
    return "CONSTANTS\n" + MV + "  Peer = {%s}\n  Row = {%s}\n  Ent = {A, B}\n  EntOf <- %s\n  EntRank <- EntRankAB\n  MaxVer = %d\n  MaxDay = %d\n  DEV = {%s}\n" % (
        ", ".join(["a", "b", "c"][:peers]), "x, y, z" if rows3 else "x, y", "EntOf3" if rows3 else "EntOf2", maxver, maxday,
        ", ".join('"%s"' % d for d in dev))


PROP_DEVS = {"C11": ["IngestIgnoresTombstone"], "C03": ["EdgesOnlyWithNewerNode", "DefLogSingleEntity"]}
INV = {"C03": "INVARIANTS Converged SameWinner NoTransferWhenConverged\n",
       "C11": "INVARIANTS TombstoneSticks DeletedEverywhere\nPROPERTIES TombstonesKept\n"}


def to_scenario(sid, hist, npeers):
    peers = ["p1", "p2", "p3"][:npeers]
    steps = [{"op": "tick", "d": 0, "k": 1}, {"op": "room", "p": "p1", "room": "R1"}]
    for p in peers[1:]:
        steps.append({"op": "pull", "p": p, "q": "p1", "room": "R1"})
    d, k = 0, 10
    for h in hist:
        if h["op"] == "day":
            d, k = d + 1, 1
            continue
        if h["op"] == "at":
            # the next operations happen on that day (the counter keeps growing: no two operations share a date)
            d = h["d"]
            continue
        st = dict(h)
        sim = st.pop("sim", False)
        if not sim:
            # (sim: the update carries the date of the update just made on another peer)
            k += 1
            steps.append({"op": "tick", "d": d, "k": k})
        st["room"] = "R1"
        if st["op"] in ("put", "move"):
            # (a mutation that only names another room changes nothing: a move also writes a field)
            st["text"] = ("s%d" if sim else "t%d") % k
        steps.append(st)
    steps.append({"op": "tick", "d": d, "k": k + 1})
    steps.append({"op": "quiesce", "room": "R1", "max": 6})
    return {"sid": sid, "peers": peers, "users": {p: "u1" for p in peers}, "steps": steps, "hist": hist}


def run(ctx, replay, prop):
    quick = ctx.tier == "quick"
    ctx.build()
    known_ids = [f["id"] for f in ctx.known]
    scen = []
    if replay:
        scen = [json.load(open(replay))["scenario"]]
    else:
        # 1. the design: with DEV = {} the protocol satisfies the property; each listed deviation breaks it
        ctx.model_check(D, "MC_Sync", consts(2, False, 4 if quick else 5, 1, []) + "SPECIFICATION Spec\n" + INV[prop] + "CHECK_DEADLOCK FALSE\n",
                        "ideal", workers=ctx.workers, timeout=1500)
        if not quick:
            ctx.model_check(D, "MC_Sync", consts(3, False, 4, 1, []) + "SPECIFICATION Spec\n" + INV[prop] + "CHECK_DEADLOCK FALSE\n",
                            "ideal3", workers=ctx.workers, timeout=3000)
        hist_cex = []
        for dev in PROP_DEVS[prop]:
            # (rows x and y of one entity for the reference deviation, so that its witness is not also a witness of the single-entity one)
            out, st = ctx.expect_counterexample(D, "Gen_Sync", consts(2, dev == "EdgesOnlyWithNewerNode", 4, 1, [dev]) + "  MaxLen = 8\n  Mode = \"none\"\nSPECIFICATION GSpec\nVIEW GView\nCONSTRAINT Bound\n" +
                                                INV[prop].replace("PROPERTIES TombstonesKept\n", "") + "CHECK_DEADLOCK FALSE\n", "cex_" + dev, workers=1)
            h = last_hist(out)
            if st.get("violated") and h:
                hist_cex.append((dev, h))
        # 2. scenarios: counterexamples of the deviations + simulation of the as-is model (+ exhaustive small bound)
        n = 0
        for dev, h in hist_cex:
            n += 1
            scen.append(to_scenario(n, h, 2))
        for (np, rows3, mv, depth, num) in ([(2, False, 6, 9, 60), (3, False, 6, 10, 40), (2, True, 7, 11, 40)] if quick else
                                           [(2, False, 6, 9, 400), (3, False, 7, 11, 400), (2, True, 7, 11, 300), (3, True, 8, 13, 300)]):
            hs = ctx.generate(D, "Gen_Sync", consts(np, rows3, mv, 1, ALLDEV) + "  MaxLen = %d\n  Mode = \"sim\"\nSPECIFICATION GSpec\nINVARIANT Emit\nCHECK_DEADLOCK FALSE\n" % depth,
                              "sim_%d%d" % (np, 3 if rows3 else 2), workers=1, simulate="num=%d" % num, depth=depth,
                              timeout=300)
            for h in hs:
                n += 1
                scen.append(to_scenario(n, h, np))
        if not quick:
            hs = ctx.generate(D, "Gen_Sync", consts(2, False, 4, 1, ALLDEV) + "  MaxLen = 7\n  Mode = \"states\"\nSPECIFICATION GSpec\nVIEW GView\nCONSTRAINT Bound\nINVARIANT Emit\nCHECK_DEADLOCK FALSE\n",
                              "states", workers=1, timeout=900)
            for h in vlib.drop_prefixes(hs):
                n += 1
                scen.append(to_scenario(n, h, 2))
    # 3. replay on real peers
    sp = ctx.write_scenarios(scen)
    tp = os.path.join(ctx.work, "trace.ndjson")
    ctx.dv_world(sp, tp)
    # 4. validate
    cfg = "CONSTANTS\n  KNOWN = {%s}\n  Property = \"%s\"\nSPECIFICATION TSpec\nINVARIANT Monitors\nPOSTCONDITION Reached\nCHECK_DEADLOCK FALSE\n" % (
        ", ".join('"%s"' % k for k in known_ids), prop)
    res = ctx.validate(D, "Trace_Sync", cfg, tp, "val", chunk=100, max_fail=5)
    by_sid = {sc["sid"]: sc for sc in scen}
    nontrivial = set()
    traces = {t["sid"]: t for t in vlib.split_trace(tp)}
    for x in res:
        sc = by_sid[x["sid"]]
        if x["ok"]:
            ctx.cov["traces_validated_against_impl"] += 1
            for dv in x["devs"]:
                ctx.cov["deviations_observed"][dv] = ctx.cov["deviations_observed"].get(dv, 0) + 1
                ctx.known_finding(dv, next(f.get("what", "") for f in ctx.known if f["id"] == dv))
        else:
            ctx.violation(x["reason"], {"property": prop, "scenario": sc, "reason": x["reason"], "trace": x["lines"]})
        t = traces.get(x["sid"])
        if t and interesting(t["lines"], prop):
            nontrivial.add(json.dumps(sc["hist"]))
    for sc in scen[:2]:
        ctx.cov["samples"].append({"scenario": sc["hist"], "first_events": [strip(json.loads(x)) for x in traces[sc["sid"]]["lines"][:8]]})
    ctx.assumptions += ["signature order observed through the first 31 bits of each signature",
                        "all peers are devices of one user (authorisation factored out); synchronisation over in-memory channels carrying the real Query/Answer messages",
                        "hashes are ideal in the model"]
    rule = ("scenarios = TLC counterexamples of each listed deviation + TLC simulation of Sync.tla (as-is model) "
            + ("+ one scenario per reachable state of the bounded model; " if not quick else "; ") +
            ("non-trivial = distinct histories in which a pull transferred a row and a deletion happened" if prop == "C11" else
             "non-trivial = distinct histories in which at least one pull transferred a row and two peers had diverged"))
    return ctx.finish("model_checking", rule, len(nontrivial), exhaustive=False)


def interesting(lines, prop):
    fetched = any('"ev":"pull"' in x and '"fetched":0' not in x and '"auto":true' not in x for x in lines)
    if prop == "C11":
        return fetched and any('"ev":"del"' in x and '"res":"ok"' in x for x in lines)
    return fetched


def strip(e):
    e = dict(e)
    e.pop("st", None)
    return e


def last_hist(out):
    """history variable of the last state of a TLC error trace, converted to the generator's JSON"""
    import re
    blocks = re.findall(r"/\\ hist = (<<.*?>>)\n(?:/\\|\n|$)", out, re.S)
    if not blocks:
        return None
    txt = blocks[-1]
    recs = re.findall(r"\[([^\]]*)\]", txt)
    hist = []
    for r in recs:
        d = {}
        for kv in re.findall(r'(\w+) \|-> "([^"]*)"', r):
            d[kv[0]] = kv[1]
        hist.append(d)
    return hist
