"""C09 - the daily log is a function of the stored content.
spec/dailylog/DailyLog.tla: marks + recomputation (code transcription and design), F(content)
spec/dailylog/Trace_DailyLog.tla: log = F(content) on every observed state without pending recomputation
scenarios: behaviours of spec/sync/Gen_Sync (local writes over several days, deletions, reference deletions, pulls)"""
import json
import os
import vlib
import synccommon

D = os.path.join(vlib.SPEC, "dailylog")
DS = os.path.join(vlib.SPEC, "sync")


def dl_cfg(maxday, maxitem, dev, inv="LogIsFunctionOfContent"):
    return "CONSTANTS\n  A = A\n  B = B\n  Ent = {A, B}\n  EntRank <- EntRankAB\n  MaxDay = %d\n  MaxItem = %d\n  DEV = {%s}\nSPECIFICATION Spec\nINVARIANTS %s\nCHECK_DEADLOCK FALSE\n" % (
        maxday, maxitem, ", ".join('"%s"' % d for d in dev), inv)


def run(ctx, replay):
    quick = ctx.tier == "quick"
    ctx.build()
    known_ids = [f["id"] for f in ctx.known]
    scen = []
    if replay:
        scen = [json.load(open(replay))["scenario"]]
    else:
        ctx.model_check(D, "MC_DailyLog", dl_cfg(2, 4 if quick else 5, []), "design", timeout=2400)
        for dev in ["RecomputeAsCode", "MoveDoesNotMarkOldDay"]:
            ctx.expect_counterexample(D, "MC_DailyLog", dl_cfg(2, 4, [dev]), "cex_" + dev)
        n = 0
        for (np, rows3, mv, md, depth, num) in ([(2, False, 7, 2, 10, 60), (2, True, 8, 2, 12, 50), (3, False, 7, 2, 11, 30)] if quick else
                                               [(2, False, 8, 2, 12, 500), (2, True, 9, 2, 14, 400), (3, True, 9, 2, 14, 300)]):
            hs = ctx.generate(DS, "Gen_Sync", synccommon.consts(np, rows3, mv, md, synccommon.ALLDEV) +
                              "  MaxLen = %d\n  Mode = \"sim\"\nSPECIFICATION GSpec\nINVARIANT Emit\nCHECK_DEADLOCK FALSE\n" % depth,
                              "sim_%d%d" % (np, 3 if rows3 else 2), workers=1, simulate="num=%d" % num, depth=depth, timeout=300)
            for h in hs:
                n += 1
                scen.append(synccommon.to_scenario(n, h, np))
        # two rooms and rows moved between them (the scenarios of C18): the log of the room a row leaves must follow
        import c18
        hs = ctx.generate(os.path.join(vlib.SPEC, "events"), "Gen_Events", "CONSTANTS\n  MaxLen = 8\n  Mode = \"sim\"\nSPECIFICATION GSpec\nINVARIANT Emit\nCHECK_DEADLOCK FALSE\n",
                          "moves", workers=1, simulate="num=%d" % (60 if quick else 600), depth=8, timeout=300, limit=60 if quick else 600)
        for h in hs:
            if any(o["op"] == "move" for o in h):
                n += 1
                scen.append(c18.to_scenario(n, h))
        # directed: what one recomputation pass meets (several entities pending, computed days before / between / after)
        hs = ctx.generate(D, "Gen_DailyLog", "SPECIFICATION Spec\nINVARIANT Emit\nCHECK_DEADLOCK FALSE\n", "passes", workers=1, timeout=1500,
                          limit=160 if quick else 5000)
        for h in hs:
            n += 1
            scen.append(synccommon.to_scenario(n, h, 2))
    sp = ctx.write_scenarios(scen)
    tp = os.path.join(ctx.work, "trace.ndjson")
    ctx.dv_world(sp, tp)
    cfg = "CONSTANTS\n  KNOWN = {%s}\nSPECIFICATION TSpec\nINVARIANT Monitors\nPOSTCONDITION Reached\nCHECK_DEADLOCK FALSE\n" % (
        ", ".join('"%s"' % k for k in known_ids))
    res = ctx.validate(D, "Trace_DailyLog", cfg, tp, "val", chunk=100, max_fail=5)
    by_sid = {sc["sid"]: sc for sc in scen}
    traces = {t["sid"]: t for t in vlib.split_trace(tp)}
    nontrivial = set()
    for x in res:
        sc = by_sid[x["sid"]]
        if x["ok"]:
            ctx.cov["traces_validated_against_impl"] += 1
            for dv in x["devs"]:
                ctx.cov["deviations_observed"][dv] = ctx.cov["deviations_observed"].get(dv, 0) + 1
                ctx.known_finding(dv, next(f.get("what", "") for f in ctx.known if f["id"] == dv))
        else:
            ctx.violation(x["reason"], {"property": "C09", "scenario": sc, "reason": x["reason"], "trace": x["lines"]})
        t = traces.get(x["sid"])
        # non trivial: more than one day in some log and a deletion or a cross-day change
        if t and any('"day":1' in ln for ln in t["lines"]) and any('"ev":"del"' in ln or '"ev":"unref"' in ln for ln in t["lines"]):
            nontrivial.add(json.dumps(sc["hist"]))
    for sc in scen[:2]:
        ctx.cov["samples"].append({"scenario": sc["hist"], "first_events": [synccommon.strip(json.loads(x)) for x in traces[sc["sid"]]["lines"][:8]]})
    ctx.assumptions += ["hash terms are decoded by the harness from the stored bytes (D = blake3 of the signatures in byte order, H = blake3 of the concatenation); blake3 is ideal",
                        "signature order observed through the first 31 bits", "batches of more than one request only arise inside pulls"]
    return ctx.finish("model_checking", "scenarios = TLC simulation of Sync.tla over 3 days (writes, cross-day updates, deletions, reference deletions, pulls); "
                      "non-trivial = distinct histories spanning at least two days with a deletion", len(nontrivial))
