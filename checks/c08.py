"""C08 - a peer is served data only for rooms it is a member of.
spec/auth: Gen_Serve (request sequences x membership changes x authentication), Trace_Serve (every decoded answer against Auth.tla);
harness op serve: the real InboundQueryService loop with the harness as the remote end."""
import json
import os
import vlib

D = os.path.join(vlib.SPEC, "auth")


def R(e, s, a):
    return {"ent": e, "self": s, "all": a}


def room(name, admins, users, uadmins):
    return {"op": "roomdef", "p": "p1", "room": name, "admins": admins, "groups": [
        {"g": "g1", "rights": [R("*", True, True)], "users": users, "uadmins": uadmins},
        {"g": "g2", "rights": [R("*", True, True)], "users": ["u1"], "uadmins": []}]}


PREP = [{"op": "tick", "d": 0, "k": 10}, room("R1", ["u1"], ["u2"], []), room("R2", ["u1"], ["u3"], []), room("R3", ["u1", "u2"], [], []), room("R4", ["u1"], [], ["u2"])]
for i, r in enumerate(["R1", "R2", "R3", "R4"]):
    PREP += [{"op": "tick", "d": 0, "k": 20 + i}, {"op": "put", "p": "p1", "row": "x%d" % (i + 1), "ent": "A", "room": r, "text": "t%d" % i}]
PREP += [{"op": "tick", "d": 0, "k": 30}, {"op": "ref", "p": "p1", "row": "x1", "to": "x2", "ent": "A", "tent": "A"},
         {"op": "tick", "d": 0, "k": 31}, {"op": "put", "p": "p1", "row": "x9", "ent": "A", "room": "R2", "text": "gone"},
         {"op": "tick", "d": 0, "k": 32}, {"op": "del", "p": "p1", "row": "x9", "ent": "A"}]


def to_scenario(sid, hist):
    steps = list(PREP)
    k = 40
    for h in hist:
        k += 1
        steps.append({"op": "tick", "d": 0, "k": k})
        st = dict(h)
        if st["op"] == "serve":
            st.update({"server": "p1", "conn": "c1"})
        steps.append(st)
    return {"sid": sid, "peers": ["p1", "p2", "p3"], "users": {"p1": "u1", "p2": "u2", "p3": "u3"}, "steps": steps, "hist": hist, "defs": True}


def run(ctx, replay):
    quick = ctx.tier == "quick"
    ctx.build()
    known_ids = [f["id"] for f in ctx.known]
    if replay:
        scen = [json.load(open(replay))["scenario"]]
    else:
        ctx.model_check(D, "MC_Auth", "CONSTANTS\n  MaxDate = 2\n  MaxEntries = 3\nSPECIFICATION Spec\nINVARIANTS PastIsImmutable AllImpliesSelf\nCHECK_DEADLOCK FALSE\n", "auth", timeout=2400)
        scen = []
        n = 0
        for (depth, num) in ([(8, 50), (14, 40)] if quick else [(8, 400), (14, 400), (20, 300)]):
            hs = ctx.generate(D, "Gen_Serve", "CONSTANTS\n  MaxLen = %d\nSPECIFICATION GSpec\nINVARIANT Emit\nCHECK_DEADLOCK FALSE\n" % depth,
                              "req_%d" % depth, workers=1, simulate="num=%d" % num, depth=depth + 2, timeout=300, limit=num)
            for h in hs:
                n += 1
                scen.append(to_scenario(n, h))
    sp = ctx.write_scenarios(scen)
    tp = os.path.join(ctx.work, "trace.ndjson")
    ctx.dv_world(sp, tp)
    cfg = "CONSTANTS\n  KNOWN = {%s}\nSPECIFICATION TSpec\nINVARIANT Monitors\nPOSTCONDITION Reached\nCHECK_DEADLOCK FALSE\n" % (
        ", ".join('"%s"' % k for k in known_ids))
    res = ctx.validate(D, "Trace_Serve", cfg, tp, "val", chunk=60, max_fail=6)
    by_sid = {sc["sid"]: sc for sc in scen}
    traces = {t["sid"]: t for t in vlib.split_trace(tp)}
    kinds = set()
    served = 0
    for x in res:
        sc = by_sid[x["sid"]]
        if x["ok"]:
            ctx.cov["traces_validated_against_impl"] += 1
            for dv in x["devs"]:
                ctx.cov["deviations_observed"][dv] = ctx.cov["deviations_observed"].get(dv, 0) + 1
                ctx.known_finding(dv, next(f.get("what", "") for f in ctx.known if f["id"] == dv))
        else:
            ctx.violation(x["reason"], {"property": "C08", "scenario": sc, "reason": x["reason"], "trace": x["lines"][-4:]})
        for ln in traces.get(x["sid"], {"lines": []})["lines"]:
            if '"ev":"serve"' in ln:
                e = json.loads(ln)
                for a in e.get("answers", []):
                    kinds.add((a["q"], a.get("room"), e["as"], bool(a["rooms"])))
                    served += 1 if a["rooms"] else 0
    for sc in scen[:2]:
        ctx.cov["samples"].append(sc["hist"][:8])
    ctx.cov["answers_carrying_room_data"] = served
    ctx.assumptions += ["one connection per scenario; the local room-definition events are delivered to the connection before the next request",
                        "4 rooms (member / never member / admin only / user-admin only), one requester key"]
    return ctx.finish("model_checking", "scenarios = TLC simulation of Gen_Serve (13 request kinds x 4 rooms x row sets, before/after authentication, membership changes in between); "
                      "non-trivial = distinct (request kind, room, authenticated, data served) classes", len(kinds))
