"""C11 - a deleted row stays deleted."""
import synccommon


def run(ctx, replay):
    return synccommon.run(ctx, replay, "C11")
