"""C05 - query results equal a direct evaluation of the query over the data.
spec/queryeval: QueryEval.tla (the meaning of a query as a function of the rows: defaults, filters, references, nullable,
ordering, first/skip, before/after), MC_Paging (paging visits every row once, for every small data set), Trace_QueryEval;
harness: dv queries (real instance).  Data sets and query ASTs are drawn here with the seed; TLC is the evaluator."""
import json
import os
import random
import vlib

D = os.path.join(vlib.SPEC, "queryeval")
STR = {1: "a", 2: "b", 3: "c"}
FLT = {1: 0.5, 2: 1.5, 3: 2.5}
BOOL = {1: False, 2: True}
TABLES = {"s": {"a": 1, "b": 2, "c": 3}, "t": {"a": 1, "b": 2, "c": 3}, "f": {"0.5": 1, "1.5": 2, "2.5": 3}, "b": {"false": 1, "true": 2}}
SCALARS = {"A": ["u", "s", "i", "d", "f", "b"], "B": ["u", "t", "n"]}
REFS = {"A": {"one": "B", "many": "B", "self": "A", "req": "B"}, "B": {}}


def raw(f, c):
    if c == 0:
        return None
    if f in ("s", "t"):
        return STR[c]
    if f == "f":
        return FLT[c]
    if f == "b":
        return BOOL[c]
    return c


def lit(f, c):
    v = raw(f, c)
    if v is None:
        return "null"
    if isinstance(v, bool):
        return "true" if v else "false"
    if isinstance(v, str):
        return json.dumps(v)
    return repr(v)


def dataset(rnd, na, nb):
    """rows flagged old are written before the model update that adds the fields with a default (d, n): they do not hold them"""
    B, A = [], []
    for k in range(nb):
        old = rnd.random() < 0.4
        n = 0 if old else rnd.choice([None, 1, 3])
        B.append({"id": 101 + k, "u": k + 1, "old": old, "t": rnd.choice([0, 1, 1, 2]), "n": n})
    oldb = [b["id"] for b in B if b["old"]]
    for k in range(na):
        old = bool(oldb) and rnd.random() < 0.4
        pool = oldb if old else [b["id"] for b in B]
        d = 0 if old else rnd.choice([None, None, 1, 3])
        A.append({"id": k + 1, "u": k + 1, "old": old, "s": rnd.choice([0, 1, 2, 2, 3]), "i": rnd.choice([0, 1, 2, 2, 3]), "d": d,
                  "f": rnd.choice([0, 1, 2]), "b": rnd.choice([0, 1, 2]),
                  "one": rnd.choice([[], [rnd.choice(pool)]]), "many": sorted(rnd.sample(pool, rnd.randrange(0, len(pool) + 1))),
                  "self": [], "req": [rnd.choice(pool)]})
    for a in A:
        if not a["old"] and rnd.random() < 0.5:
            a["self"] = [rnd.choice(A)["id"]]
    rnd.shuffle(A)
    # what is stored: a new row written without the field holds the default (2); an old row does not hold the field
    coded = {"A": [dict(a, d=(2 if a["d"] is None else a["d"])) for a in A], "B": [dict(b, n=(2 if b["n"] is None else b["n"])) for b in B]}
    for e in ("A", "B"):
        for r in coded[e]:
            del r["old"]
    concrete = {"A": [dict(a, **{f: (raw(f, a[f]) if a[f] is not None else None) for f in ("s", "i", "d", "f", "b")}) for a in A],
                "B": [dict(b, **{f: (raw(f, b[f]) if b[f] is not None else None) for f in ("t", "n")}) for b in B]}
    return coded, concrete


def gen_agg_ast(rnd, ent):
    """an aggregate query: the selected fields are the grouping keys"""
    sc = SCALARS[ent]
    sel = rnd.sample(sc[1:], rnd.choice([0, 1, 1, 2]))
    aggs = []
    names = iter(["a1", "a2", "a3"])
    for _ in range(rnd.choice([1, 2, 3])):
        fn = rnd.choice(["count", "max", "min", "sum", "avg"])
        if fn == "count":
            aggs.append([next(names), fn, ""])
        elif fn in ("sum", "avg"):
            aggs.append([next(names), fn, rnd.choice([f for f in sc if f in ("u", "i", "d", "n")])])
        else:
            aggs.append([next(names), fn, rnd.choice([f for f in sc if f != "b"])])
    filters = []
    if rnd.random() < 0.4:
        f = rnd.choice([x for x in sc if x != "b"])
        filters.append([f, rnd.choice(["<", "<=", ">", ">=", "!="]), rnd.choice([1, 2, 3])])
    having = []
    if rnd.random() < 0.35:
        a = rnd.choice(aggs)
        if a[1] in ("count", "sum") or (a[1] in ("max", "min") and a[2] in ("u", "i", "d", "n")):
            having.append([a[0], rnd.choice(["<", "<=", ">", ">=", "=", "!="]), rnd.choice([1, 2, 3])])
    order = [[f, rnd.choice(["asc", "desc"])] for f in sel]
    if rnd.random() < 0.4:
        order = [[rnd.choice(aggs)[0], rnd.choice(["asc", "desc"])]] + order
    first = rnd.choice([0, 0, 1, 2]) if sel else 0
    skip = rnd.choice([0, 0, 1]) if sel else 0
    if not sel:
        order = []
    return {"ent": ent, "sel": sel, "filters": filters, "order": order, "first": first, "skip": skip, "page": {"kind": "none", "vals": []}, "nullable": [], "subs": [],
            "aggs": aggs, "having": having}


def gen_ast(rnd, ent, depth, nrows, root=True):
    sc = SCALARS[ent]
    sel = ["u"] + [f for f in sc[1:] if rnd.random() < 0.5]
    filters = []
    for _ in range(rnd.choice([0, 0, 1, 1, 2])):
        f = rnd.choice(sc)
        if f == "b":
            op = rnd.choice(["=", "!="])
            v = rnd.choice([0, 1, 2])
        else:
            op = rnd.choice(["=", "!=", "<", "<=", ">", ">="])
            v = rnd.choice([0, 1, 2, 3]) if op in ("=", "!=") and f in ("s", "i", "f", "t") else rnd.choice([1, 2, 3])
        filters.append([f, op, v])
    order = []
    first = skip = 0
    page = {"kind": "none", "vals": []}
    if not root or rnd.random() < 0.85:
        keys = rnd.sample(sc[1:], rnd.choice([0, 1, 1, 2]))
        order = [[k, rnd.choice(["asc", "desc"])] for k in keys] + [["u", rnd.choice(["asc", "desc"])]]
        first = rnd.choice([0, 0, 1, 2, 3])
        skip = rnd.choice([0, 0, 0, 1, 2])
        if root and rnd.random() < 0.35:
            n = rnd.randrange(1, len(order) + 1)
            vals = [(rnd.randrange(1, nrows + 1) if order[j][0] == "u" else rnd.choice([1, 2, 3] if order[j][0] != "b" else [1, 2])) for j in range(n)]
            page = {"kind": rnd.choice(["after", "before"]), "vals": vals}
    subs = []
    nullable = []
    if depth > 0:
        for fld in rnd.sample(sorted(REFS[ent]), min(len(REFS[ent]), rnd.choice([0, 0, 1, 1, 2]))):
            sq = gen_ast(rnd, REFS[ent][fld], depth - 1, nrows, root=False)
            if fld != "many":
                # a single reference holds at most one row: first / skip have no meaning there
                sq["first"] = sq["skip"] = 0
            subs.append([fld, sq])
        if rnd.random() < 0.4:
            nullable = [x[0] for x in subs if rnd.random() < 0.6]
    return {"ent": ent, "sel": sel, "filters": filters, "order": order, "first": first, "skip": skip, "page": page, "nullable": nullable, "subs": subs, "aggs": [], "having": []}


def render_params(q, extra=None):
    parts = []
    for f, op, v in q["filters"]:
        parts.append("%s %s %s" % (f, op, lit(f, v)))
    for al, op, v in q.get("having", []):
        a = [x for x in q["aggs"] if x[0] == al][0]
        parts.append("%s %s %s" % (al, op, lit(a[2], v) if a[1] in ("max", "min") else str(v)))
    if q["order"]:
        parts.append("order_by(%s)" % ", ".join("%s %s" % (k, d) for k, d in q["order"]))
    if q["first"]:
        parts.append("first %d" % q["first"])
    if q["skip"]:
        parts.append("skip %d" % q["skip"])
    if q["page"]["kind"] != "none":
        parts.append("%s(%s)" % (q["page"]["kind"], ", ".join(lit(q["order"][j][0], v) for j, v in enumerate(q["page"]["vals"]))))
    if q["nullable"]:
        parts.append("nullable(%s)" % ", ".join(q["nullable"]))
    if extra:
        parts.append(extra)
    return " (%s)" % ", ".join(parts) if parts else ""


def render_body(q):
    out = list(q["sel"])
    for al, fn, f in q.get("aggs", []):
        out.append("%s: %s(%s)" % (al, fn, f))
    for fld, sq in q["subs"]:
        out.append("%s%s { %s }" % (fld, render_params(sq), render_body(sq)))
    return " ".join(out)


def render(q, extra=None):
    return "query { q.%s%s { %s } }" % (q["ent"], render_params(q, extra), render_body(q))


def run(ctx, replay):
    quick = ctx.tier == "quick"
    ctx.build()
    known_ids = [f["id"] for f in ctx.known]
    rnd = random.Random(ctx.seed)
    if replay:
        scen = [json.load(open(replay))["scenario"]]
    else:
        # the reference itself: paging by first k / after(last keys) visits every row once for every small data set; the code's null comparison does not
        pg = "CONSTANTS\n  DEV = {%s}\n  MaxRows = 3\nSPECIFICATION PSpec\nINVARIANT PagingVisitsEveryRowOnce\nCHECK_DEADLOCK FALSE\n"
        ctx.model_check(D, "MC_Paging", pg % "", "paging-design", workers=8, timeout=900)
        ctx.expect_counterexample(D, "MC_Paging", pg % '"PagingSkipsNullKeys"', "paging-null", workers=4)
        nds, nq, npg = (12, 90, 12) if quick else (120, 250, 30)
        scen = []
        for k in range(nds):
            coded, concrete = dataset(rnd, rnd.choice([3, 4, 5]), 3)
            queries = []
            for j in range(nq):
                ent = "A" if rnd.random() < 0.85 else "B"
                ast = gen_agg_ast(rnd, ent) if rnd.random() < 0.2 else gen_ast(rnd, ent, rnd.choice([0, 1, 1, 2]), len(coded[ent]))
                queries.append({"qid": j + 1, "kind": "query", "text": render(ast), "params": None, "ast": ast})
            for j in range(npg):
                ent = "A" if rnd.random() < 0.8 else "B"
                ast = gen_ast(rnd, ent, rnd.choice([0, 1]), len(coded[ent]))
                while not ast["order"]:
                    ast = gen_ast(rnd, ent, 0, len(coded[ent]))
                if j % 2 == 0:
                    # keys that can never be null
                    ast["order"] = [o for o in ast["order"] if o[0] in ("u", "d", "n")]
                ast["page"] = {"kind": "none", "vals": []}
                ast["skip"] = 0
                keys = [o[0] for o in ast["order"]]
                ast["sel"] = ast["sel"] + [f for f in keys if f not in ast["sel"]]
                kk = rnd.choice([1, 2])
                ast["first"] = kk
                nxt = "after(%s)" % ", ".join("$k%d" % x for x in range(len(keys)))
                queries.append({"qid": nq + j + 1, "kind": "paginate", "text": render(ast), "text_next": render(ast, nxt), "params": {}, "ast": ast, "keys": keys})
            scen.append({"sid": k + 1, "data": concrete, "coded": coded, "tables": TABLES, "queries": queries})
    sp = ctx.write_scenarios(scen)
    tp = os.path.join(ctx.work, "trace.ndjson")
    ctx.dv_world(sp, tp, nproc=6, sub="queries")
    cfg = "CONSTANTS\n  DEV = {}\n  KNOWN = {%s}\nSPECIFICATION TSpec\nINVARIANT Monitors\nPOSTCONDITION Reached\nCHECK_DEADLOCK FALSE\n" % (
        ", ".join('"%s"' % k for k in known_ids))
    res = ctx.validate(D, "Trace_QueryEval", cfg, tp, "val", chunk=4, max_fail=6, timeout=1800)
    by_sid = {sc["sid"]: sc for sc in scen}
    classes = set()
    nqueries = 0
    for x in res:
        sc = by_sid[x["sid"]]
        if x["ok"]:
            ctx.cov["traces_validated_against_impl"] += 1
            for dv in x["devs"]:
                ctx.cov["deviations_observed"][dv] = ctx.cov["deviations_observed"].get(dv, 0) + 1
                ctx.known_finding(dv, next(f.get("what", "") for f in ctx.known if f["id"] == dv))
        else:
            small = dict(sc)
            import re
            m = re.search(r'<<"(?:result|pages)", (\d+)>>', x["reason"])
            qid = int(m.group(1)) if m else None
            if qid is not None:
                small["queries"] = [q for q in sc["queries"] if q["qid"] == qid]
            ctx.violation(x["reason"], {"property": "C05", "scenario": small, "reason": x["reason"], "trace": [l[:700] for l in x["lines"][-2:]]})
        for q in sc["queries"]:
            nqueries += 1
            a = q["ast"]
            classes.add((q["kind"], a["ent"], tuple(sorted(x[1] for x in a.get("aggs", []))), len(a.get("having", [])), len(a["filters"]), len(a["order"]), bool(a["first"]), bool(a["skip"]), a["page"]["kind"], len(a["subs"]), bool(a["nullable"]),
                         tuple(sorted(s[0] for s in a["subs"]))))
    ctx.cov["queries_run"] = nqueries
    ctx.cov["samples"].append(scen[0]["queries"][0]["text"])
    ctx.assumptions += ["one fixed data model (namespaces, every scalar type but Base64/Json, defaults, nullable fields, single / array / self references, a required reference), random data sets of 3-5 rows per entity with ties and nulls",
                        "values are compared through order-preserving codes; aggregates, json selectors and full text search are not in the reference evaluator",
                        "the order of rows with equal keys is not specified: every order_by of the generated queries ends with a unique key"]
    return ctx.finish("model_checking", "random data sets x random query ASTs (filters on selected and unselected fields, order_by on several keys with ties and nulls, first/skip, before/after, "
                      "nullable(), nested references up to depth 2) evaluated by TLC with QueryEval.tla and compared with the real result; paging loops; "
                      "non-trivial = distinct query shapes", len(classes), exhaustive=False)
