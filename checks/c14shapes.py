"""Concrete inputs for the shapes of Service.tla (C14).  catalogue(rnd) -> {model_key: (model_text, model_valid, {shape: [inputs]})}."""
import json

SQLKW = ["order", "group", "select", "where", "from", "index", "table", "limit", "join", "values", "having", "union", "primary", "key", "default", "check",
         "and", "or", "not", "is", "in", "as", "by", "desc", "asc", "case", "when", "then", "else", "end", "exists", "like", "match", "rowid", "value", "all", "to", "null", "true", "query", "first"]
ODD = ["1st", "007", "é", "名前", "x_", "Ω9", "x" * 200, "K"]

M0 = ("v { P { name: String } "
      "T { s: String nullable, i: Integer nullable, f: Float nullable, b: Boolean nullable, x: Base64 nullable, j: Json nullable, "
      "ds: String default \"d\", di: Integer default 1, df: Float default 1.5, db: Boolean default true, dx: Base64 default \"AA\", dj: Json default \"{}\", "
      "ps: [v.P] nullable, p: v.P nullable } "
      "N { name: String nullable, next: v.N nullable, all: [v.N] nullable } }")

KINDS = {"null": None, "bool": True, "int": 7, "float": 2.5, "string": "text", "b64": "AQID", "json": "{\"a\":[1,2]}", "badb64": "***", "badjson": "{", "bigint": 2 ** 63 - 1,
         "empty": "", "negint": -3}
FIELD_TYPES = {"s": "String", "i": "Integer", "f": "Float", "b": "Boolean", "x": "Base64", "j": "Json",
               "ds": "String", "di": "Integer", "df": "Float", "db": "Boolean", "dx": "Base64", "dj": "Json"}
FITS = {"String": {"string", "b64", "json", "badb64", "badjson", "empty"}, "Integer": {"int", "bigint", "negint"}, "Float": {"float"}, "Boolean": {"bool"},
        "Base64": {"b64", "empty"}, "Json": {"json"}}

SEED_QUERIES = [
    "query { v.P { name } }",
    "query q { v.P (order_by(name desc), first 2, skip 1) { id name mdate } }",
    "query { v.T (i > 1, s != null, order_by(i asc, s desc)) { s i f b x j ds di p { name } ps (order_by(name asc)) { name } } }",
    "query { v.T (nullable(p), first 3) { s p { name } } }",
    "query { v.T { n: count() mx: max(i) av: avg(f) } }",
    "query { v.T (after(1, \"a\"), order_by(i asc, s asc)) { i s } }",
    "query { v.T { a: j->$.a b: j->$.b.c } }",
    "query { v.P (search(\"probe\")) { name } }",
    "query { a: v.P { name } b: v.P { id } }",
    "query { v.N { name next { name next { name } } all { name } } }",
]
SEED_MUTATIONS = [
    "mutate { v.P { room_id:$room name:\"x\" } }",
    "mutate m { v.T { room_id:$room s:\"a\" i:1 f:1.5 b:true x:\"AQID\" j:\"{}\" p: { name:\"n\" } ps: [ { name:\"a\" }, { name:\"b\" } ] } }",
    "mutate { v.N { room_id:$room name:\"a\" next: { name:\"b\" next: { name:\"c\" } } } }",
    "mutate { a: v.P { room_id:$room name:\"x\" } b: v.P { room_id:$room name:\"y\" } }",
]
SEED_DELETIONS = [
    "delete { v.P { $id } }",
    "delete d { v.T { $id ps[$id] } }",
]
SEED_MODELS = [
    M0,
    "{ A { name: String, index(name) } }",
    "ns { @deprecated Old { a: Integer default 3, b: Float default 1.5, c: Boolean default false, } B (no_full_text_index) { r: [ns.Old], } }",
]
EDIT_TOKENS = ["{", "}", "(", ")", "\"", "$", "\\", ":", ",", "[", "]", "->", "null", "order_by", "first", "99999999999999999999", "-", " ", "\u0000", "é", "'", ";", "--", "/*",
               "@deprecated", "nullable", "default", "$room", "$id", "sys.", "_", ".", "1e999", "\\u00", "\n", "true", "after", "before", "search", "json", "->$", "=", "!=", ">="]


def mutate_text(rnd, text):
    t = list(text)
    for _ in range(rnd.choice([1, 1, 2, 3, 5])):
        k = rnd.choice(["del", "ins", "dup", "cut", "swap"])
        if not t:
            t = list("x")
        i = rnd.randrange(len(t))
        if k == "del":
            del t[i:i + rnd.choice([1, 1, 2, 5])]
        elif k == "ins":
            t[i:i] = list(rnd.choice(EDIT_TOKENS))
        elif k == "dup":
            j = min(len(t), i + rnd.choice([1, 3, 10]))
            t[i:i] = t[i:j]
        elif k == "cut":
            t = t[:i]
        else:
            j = rnd.randrange(len(t))
            t[i], t[j] = t[j], t[i]
    return "".join(t)


def rnd_hex(rnd, n):
    return "".join("%02x" % rnd.randrange(256) for _ in range(n))


def base_shapes(rnd, n_mut):
    sh = {}
    R = {"room": "$ROOM"}

    def add(shape, **k):
        k["shape"] = shape
        k.setdefault("valid", False)
        sh.setdefault(shape, []).append(k)
    # every parameter kind on every field type, in a mutation and in a filter
    for f, ty in FIELD_TYPES.items():
        nullable = not f.startswith("d")
        for kind, v in KINDS.items():
            ok = (kind in FITS[ty]) or (kind == "null" and nullable)
            if ty == "Float" and kind in ("int", "negint"):
                ok = False   # accepted or refused, not asserted
            p = dict(R)
            p["p"] = v
            add("param_mutation", op="mutate", text="mutate { v.T { room_id:$room %s:$p } }" % f, params=p, valid=ok)
            if ty != "Json":
                add("param_filter", op="query", text="query { v.T (%s = $p) { %s } }" % (f, f), params={"p": v}, valid=ok and kind != "null" or (kind == "null" and nullable))
                add("param_filter", op="query", text="query { v.T (%s >= $p, order_by(%s desc)) { id } }" % (f, f), params={"p": v}, valid=False)
        add("param_missing", op="mutate", text="mutate { v.T { room_id:$room %s:$p } }" % f, params=dict(R), valid=False)
        add("param_missing", op="query", text="query { v.T (%s = $p) { %s } }" % (f, f), params=None, valid=False)
        # literal null / literals of every kind
        for lit in ["null", "true", "1", "-1", "1.5", "\"t\"", "\"AQID\"", "\"{}\"", "99999999999999999999", "1e400", "-0.0"]:
            add("literal_kind", op="mutate", text="mutate { v.T { room_id:$room %s:%s } }" % (f, lit), params=dict(R), valid=False)
            add("literal_kind", op="query", text="query { v.T (%s = %s) { id } }" % (f, lit), params=None, valid=False)
    add("param_missing", op="mutate", text="mutate { v.P { room_id:$room name:$n } }", params={"room": "$ROOM", "n": "x", "extra": 1}, valid=False)
    for text in ["", "{", "[]", "null", "{\"a\":[1]}", "{\"a\":{\"b\":1}}", "{\"a\":1e999}", "{\"a\":18446744073709551616}", "{\"a\":18446744073709551615}", "{\"\":null}", "\u0000",
                 "{\"a\":9223372036854775808}", "{\"a\":-9223372036854775809}", "{\"a\":1.0e0}"]:
        add("params_json", op="params_json", text=text)
    # valid seeds and their mutants
    for q in SEED_QUERIES:
        add("seed_request", op="query", text=q, params=None, valid=True)
    for m in SEED_MUTATIONS:
        add("seed_request", op="mutate", text=m, params=dict(R), valid=True)
    for d in SEED_DELETIONS:
        add("seed_request", op="delete", text=d, params={"id": "AAAAAAAAAAAAAAAAAAAAAA"}, valid=False)
    for m in SEED_MODELS:
        add("seed_request", op="model_parse", text=m, valid=True)
    for _ in range(n_mut):
        add("mutated_query", op="query", text=mutate_text(rnd, rnd.choice(SEED_QUERIES)), params=rnd.choice([None, {"room": "$ROOM", "id": "x"}]))
        add("mutated_mutation", op="mutate", text=mutate_text(rnd, rnd.choice(SEED_MUTATIONS)), params=rnd.choice([dict(R), None, {"room": 3}]))
        add("mutated_deletion", op="delete", text=mutate_text(rnd, rnd.choice(SEED_DELETIONS)), params=rnd.choice([{"id": "AAAAAAAAAAAAAAAAAAAAAA"}, {"id": ""}, {"id": "***"}, None]))
        add("mutated_model", op="model_parse", text=mutate_text(rnd, rnd.choice(SEED_MODELS)))
    alphabet = "{}()[]\"$:,.-> \n\\abcXYZ019_é\u0000'"
    for _ in range(max(4, n_mut // 3)):
        text = "".join(rnd.choice(alphabet) for _ in range(rnd.choice([1, 5, 30, 200])))
        for op in ("query", "mutate", "delete", "model_parse"):
            add("random_text", op=op, text=rnd.choice(["", "query ", "mutate ", "delete ", "query { ", "{ "]) + text, params=None)
    # numbers and nesting
    for n in ["0", "-1", "99999999999999999999", "9223372036854775807", "1.5", "00"]:
        add("numbers", op="query", text="query { v.P (first %s) { name } }" % n, params=None)
        add("numbers", op="query", text="query { v.P (skip %s) { name } }" % n, params=None)
        add("numbers", op="query", text="query { v.T (i = %s) { i } }" % n, params=None)
        add("numbers", op="mutate", text="mutate { v.T { room_id:$room i:%s f:%s } }" % (n, n), params=dict(R))
    for depth in (5, 40, 200):
        q = "name"
        m = "name:\"x\""
        for _ in range(depth):
            q = "name next { %s }" % q
            m = "name:\"x\" next: { %s }" % m
        add("nesting", op="query", text="query { v.N { %s } }" % q, params=None, valid=depth <= 5)
        add("nesting", op="mutate", text="mutate { v.N { room_id:$room %s } }" % m, params=dict(R), valid=depth <= 5)
    for n in ["1", "3", "9223372036854775807"]:
        add("paging_forms", op="query", text="query { v.P (skip %s) { name } }" % n, params=None, valid=True)
        add("paging_forms", op="query", text="query { v.P (skip $n) { name } }", params={"n": int(n)}, valid=True)
        add("paging_forms", op="query", text="query { v.P (first %s) { name } }" % n, params=None, valid=True)
        add("paging_forms", op="query", text="query { v.P (first $n, skip $n) { name } }", params={"n": int(n)}, valid=True)
        add("paging_forms", op="query", text="query { v.T { ps (skip %s) { name } } }" % n, params=None, valid=True)
    for sel in ["$.a", "$", "$.a.b[0]", "$[", "$.\"a b\"", "$.a'b", "$..", "a", "$.é"]:
        add("json_selector", op="query", text="query { v.T { j->%s } }" % sel, params=None)
        add("json_selector", op="query", text="query { v.T (order_by(j->%s asc)) { id } }" % sel, params=None)
    for term in ["\"", "*", "a AND", "NEAR(", "-x", "a:b", "^", "(", "\"a", "a OR", "", " ", "'", "é*", "x" * 500]:
        add("search_term", op="query", text="query { v.P (search($t)) { name } }", params={"t": term})
        add("search_term", op="query", text="query { v.P (search(%s)) { name } }" % json.dumps(term), params=None)
    for idv in ["", "***", "AAAAAAAAAAAAAAAAAAAAAA", "AAAA", "A" * 400, 1, None, True]:
        add("odd_ids", op="mutate", text="mutate { v.P { id:$id name:\"x\" } }", params={"id": idv})
        add("odd_ids", op="mutate", text="mutate { v.P { room_id:$id name:\"x\" } }", params={"id": idv})
        add("odd_ids", op="query", text="query { v.P (id = $id) { name } }", params={"id": idv})
        add("odd_ids", op="query", text="query { v.P (room_id = $id) { name } }", params={"id": idv})
        add("odd_ids", op="delete", text="delete { v.P { $id } }", params={"id": idv})
        add("odd_ids", op="mutate", text="mutate { v.T { room_id:$room p: { id:$id } } }", params={"room": "$ROOM", "id": idv})
        add("odd_ids", op="mutate", text="mutate { v.T { room_id:$room ps: [ { id:$id } ] } }", params={"room": "$ROOM", "id": idv})
    # keys and signatures
    own = "own"
    keys = ["", "00", "01", "ff" * 33, "00" * 33, "01" + "00" * 32, "01" + "ff" * 32, rnd_hex(rnd, 32), rnd_hex(rnd, 34), own]
    sigs = ["", "00" * 63, "00" * 64, "ff" * 64, "00" * 65, rnd_hex(rnd, 64)]
    for what in ("nodes", "edges", "nlog", "elog", "hash"):
        for k in keys:
            for sg in sigs:
                add("bad_key_or_signature", op="verify", what=what, key=k, sig=sg)
    # rows signed by an authorised user, with odd content
    for js in [None, "", "not json", "[]", "{\"32\":", "{}", "{\"x\":1}", "null", "\"str\"", "[" * 3000, "{\"32\":\"" + "x" * 100000 + "\"}", "{\"32\":1e999}", "\u0000"]:
        for ent in [None, "=", "=0.0", "=99999", "=x'y", "=" + "9" * 300, "P"]:
            add("odd_row", op="row", json=js, entity=ent)
    for d in [0, -1, -2 ** 63, 2 ** 63 - 1, 1]:
        add("odd_row", op="row", json="{}", entity=None, cdate=d, mdate=1000)
        add("odd_row", op="row", json="{}", entity=None, cdate=1000, mdate=d)
    add("odd_row", op="row", json="{}", entity=None, binary="00" * 100000)
    add("odd_row", op="row", json="{}", entity=None, id="00" * 16)
    # invitations
    for b in ["valid", "", "00", "ff" * 8, rnd_hex(rnd, 40), rnd_hex(rnd, 300)] + ["cut:%d" % n for n in (0, 1, 8, 16, 17, 40, 60, 100, 200)] + ["flip:%d" % n for n in (0, 3, 8, 16, 20, 40, 77)]:
        add("invitation_bytes", op="invite", bytes=b)
    # wire values
    for ty in ("query", "answer", "roomnode", "nodes", "event"):
        for b in ["", "00", "ff" * 8, "ff" * 16, "0100000000000000" + "ff" * 8, rnd_hex(rnd, 12), rnd_hex(rnd, 64), rnd_hex(rnd, 600), "00" * 64]:
            add("wire_bytes", op="decode", ty=ty, bytes=b)
    # requests of a connected peer
    for q in ["RoomDefinition", "RoomNode", "RoomLog", "RoomLogAt", "EdgeDeletionLog", "NodeDeletionLog", "RoomDailyNodes", "Nodes", "Edges", "PeersForRoom", "ProveIdentity", "RoomList"]:
        for room in ["own", "00" * 16, "ee" * 16]:
            for ent in ["", "0.0", "x'y", "\u0000"]:
                for date in [0, -1, 2 ** 63 - 1, -2 ** 63]:
                    if q not in ("EdgeDeletionLog", "NodeDeletionLog", "RoomDailyNodes") and ent != "":
                        continue
                    if q not in ("RoomLogAt", "EdgeDeletionLog", "NodeDeletionLog", "RoomDailyNodes", "Edges") and date != 0:
                        continue
                    for count in ([0, 1, 3, 40000] if q in ("Nodes", "Edges", "ProveIdentity") else [0]):
                        add("peer_request", op="peer_query", q=q, room=room, entity=ent, date=date, count=count)
    return sh


def keyword_models(rnd):
    """models whose identifiers are keywords of the storage engine, start with a digit or are not ASCII; with the requests that are valid on them"""
    res = {}
    names = SQLKW + ODD
    groups = [names[i:i + 8] for i in range(0, len(names), 8)]
    for gi, g in enumerate(groups):
        R = {"room": "$ROOM"}
        # scalar fields
        fields = ", ".join("%s: String nullable" % n for n in g)
        nums = ", ".join("n%s: Integer default 3" % n for n in g[:3])
        model = "v { P { name: String } K { %s, %s } }" % (fields, nums)
        sh = []
        for n in g:
            sh += [dict(op="mutate", text="mutate { v.K { room_id:$room %s:\"x\" } }" % n, params=R),
                   dict(op="query", text="query { v.K { %s } }" % n, params=None),
                   dict(op="query", text="query { v.K (%s = \"x\") { %s } }" % (n, n), params=None),
                   dict(op="query", text="query { v.K (%s = \"x\") { id } }" % n, params=None),
                   dict(op="query", text="query { v.K (order_by(%s desc), first 2) { id %s } }" % (n, n), params=None),
                   dict(op="query", text="query { v.K (order_by(%s asc), after(\"a\")) { %s } }" % (n, n), params=None),
                   dict(op="query", text="query { v.P { %s: name } }" % n, params=None),
                   dict(op="query", text="query { v.K { c: count() m: max(%s) } }" % n, params=None),
                   dict(op="query", text="query { %s: v.K { id } }" % n, params=None)]
        for n in g[:3]:
            sh += [dict(op="query", text="query { v.K (n%s > 1, order_by(n%s asc)) { n%s } }" % (n, n, n), params=None)]
        for x in sh:
            x["shape"] = "keyword_scalar_field"
            x["valid"] = True
        res["kwS%d" % gi] = (model, {"keyword_scalar_field": sh})
        # reference fields
        fields = ", ".join(("%s: v.P nullable" % n) if i % 2 == 0 else ("%s: [v.P] nullable" % n) for i, n in enumerate(g))
        model = "v { P { name: String } K { name: String nullable, %s } }" % fields
        sh = []
        for i, n in enumerate(g):
            if i % 2 == 0:
                sh.append(dict(op="mutate", text="mutate { v.K { room_id:$room name:\"k\" %s: { name:\"x\" } } }" % n, params=R))
            else:
                sh.append(dict(op="mutate", text="mutate { v.K { room_id:$room name:\"k\" %s: [ { name:\"x\" }, { name:\"y\" } ] } }" % n, params=R))
            sh += [dict(op="query", text="query { v.K { name %s { name } } }" % n, params=None),
                   dict(op="query", text="query { v.K (nullable(%s)) { name %s { name } } }" % (n, n), params=None),
                   dict(op="query", text="query { v.K { name %s (order_by(name asc), first 1) { id name } } }" % n, params=None),
                   dict(op="query", text="query { v.K { name a: %s { name } } }" % n, params=None)]
        for x in sh:
            x["shape"] = "keyword_reference_field"
            x["valid"] = True
        res["kwR%d" % gi] = (model, {"keyword_reference_field": sh})
        # entity and namespace names
        ents = " ".join("%s { name: String nullable, to: v.%s nullable }" % (n, n) for n in g)
        model = "v { P { name: String } %s }" % ents
        sh = []
        for n in g:
            sh += [dict(op="mutate", text="mutate { v.%s { room_id:$room name:\"x\" to: { name:\"y\" } } }" % n, params=R),
                   dict(op="query", text="query { v.%s (order_by(name asc)) { name to { name } } }" % n, params=None),
                   dict(op="query", text="query { v.%s (name = \"x\") { id } }" % n, params=None)]
        for x in sh:
            x["shape"] = "keyword_entity_name"
            x["valid"] = True
        res["kwE%d" % gi] = (model, {"keyword_entity_name": sh})
        ns = g[0]
        model = "%s { P { name: String nullable, to: %s.P nullable } }" % (ns, ns)
        sh = [dict(op="mutate", text="mutate { %s.P { room_id:$room name:\"x\" to: { name:\"y\" } } }" % ns, params=R),
              dict(op="query", text="query { %s.P (order_by(name asc)) { name to { name } } }" % ns, params=None)]
        for x in sh:
            x["shape"] = "keyword_namespace"
            x["valid"] = True
        res["kwN%d" % gi] = (model, {"keyword_namespace": sh})
    return res
