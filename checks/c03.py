"""C03 - synchronisation converges."""
import synccommon


def run(ctx, replay):
    return synccommon.run(ctx, replay, "C03")
