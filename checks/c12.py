"""C12 - local acceptance and peer acceptance give the same verdict.
The C01 scenarios, with a witness instance pulling from the author's instance after every local operation
(spec/auth/Trace_Agree.tla compares what the author stored with what the witness accepted, for equal room definitions)."""
import json
import os
import vlib
import authcommon

D = authcommon.D


def with_witness(sc):
    steps = []
    rooms = []
    for st in sc["steps"]:
        steps.append(st)
        if st["op"] == "roomdef":
            rooms.append(st["room"])
        if st["op"] in ("put", "move", "del", "ref", "unref"):
            p = st["p"]
            for w in (["p1"] if p != "p1" else ["p2"]):
                for r in rooms:
                    # the witness first gets the newest definition the author's instance holds (the pull does that itself)
                    steps.append({"op": "offer", "from": p, "to": w, "room": r})
    sc = dict(sc)
    sc["steps"] = steps
    return sc


def run(ctx, replay):
    quick = ctx.tier == "quick"
    ctx.build()
    known_ids = [f["id"] for f in ctx.known]
    if replay:
        scen = [json.load(open(replay))["scenario"]]
    else:
        ctx.model_check(D, "MC_Auth", "CONSTANTS\n  MaxDate = 2\n  MaxEntries = %d\nSPECIFICATION Spec\nINVARIANTS PastIsImmutable AllImpliesSelf\nCHECK_DEADLOCK FALSE\n" % (3 if quick else 4),
                        "auth", timeout=2400)
        scen = []
        n = 0
        for h in authcommon.focus(ctx, 120 if quick else None):
            n += 1
            scen.append(with_witness(authcommon.to_scenario(n, h)))
        for (depth, num) in ([(12, 40)] if quick else [(10, 400), (16, 400), (22, 300)]):
            for h in authcommon.gen(ctx, depth, num, "sim_%d" % depth):
                n += 1
                scen.append(with_witness(authcommon.to_scenario(n, h)))
    sp = ctx.write_scenarios(scen)
    tp = os.path.join(ctx.work, "trace.ndjson")
    ctx.dv_world(sp, tp)
    cfg = "CONSTANTS\n  KNOWN = {%s}\nSPECIFICATION TSpec\nINVARIANT Monitors\nPOSTCONDITION Reached\nCHECK_DEADLOCK FALSE\n" % (
        ", ".join('"%s"' % k for k in known_ids))
    res = ctx.validate(D, "Trace_Agree", cfg, tp, "val", chunk=60, max_fail=5)
    by_sid = {sc["sid"]: sc for sc in scen}
    traces = {t["sid"]: t for t in vlib.split_trace(tp)}
    nontrivial = set()
    compared = 0
    for x in res:
        sc = by_sid[x["sid"]]
        if x["ok"]:
            ctx.cov["traces_validated_against_impl"] += 1
        else:
            ctx.violation(x["reason"], {"property": "C12", "scenario": sc, "reason": x["reason"], "trace": x["lines"]})
        t = traces.get(x["sid"])
        if t:
            c = sum(1 for ln in t["lines"] if '"ev":"offer"' in ln and '"res":"ok"' in ln)
            compared += c
            if c >= 1:
                nontrivial.add(json.dumps(sc["hist"]))
    for sc in scen[:2]:
        ctx.cov["samples"].append({"scenario": sc["hist"][:6]})
    ctx.cov["witness_pulls_that_transferred_rows"] = compared
    ctx.assumptions += ["witness = the room creator's instance (or p2 when the author is the creator); verdicts are compared only when both hold the same room definition",
                        "size-limit and model-validation cases are not generated (rows are small and well formed)"]
    return ctx.finish("model_checking", "C01 scenarios (exhaustive focus product + simulation) with a witness pull after every local operation; "
                      "non-trivial = distinct histories in which a witness pull transferred at least one row or deletion", len(nontrivial))
