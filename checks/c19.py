"""C19 - connections are trusted only after key proof; invitations are single use.
spec/handshake: Handshake.tla (proof rule, invitation life cycle), Gen_Handshake (remote behaviours, invitation sequences), Trace_Handshake;
harness: dv handshake (real initialise_connection with the harness as the remote end; real PeerManagers on loop-back endpoints; token derivation)."""
import json
import os
import vlib

D = os.path.join(vlib.SPEC, "handshake")


def hs_cfg(dev):
    return "CONSTANTS\n  User = {u1, u2, u3}\n  Invitation = {i1, i2}\n  DEV = {%s}\nSPECIFICATION Spec\nINVARIANT InviteConsumedAtMostOnce\nCHECK_DEADLOCK FALSE\n" % ", ".join('"%s"' % d for d in dev)


def run(ctx, replay):
    quick = ctx.tier == "quick"
    ctx.build()
    known_ids = [f["id"] for f in ctx.known]
    if replay:
        scen = [json.load(open(replay))["scenario"]]
    else:
        ctx.model_check(D, "Handshake", hs_cfg([]), "design")
        ctx.expect_counterexample(D, "Handshake", hs_cfg(["InviteRemovedUnderWrongToken"]), "cex_invite")
        scen = []
        hs = ctx.generate(D, "Gen_Handshake", "CONSTANTS\n  MaxLen = 1\n  Part = \"handshake\"\nSPECIFICATION GSpec\nINVARIANT Emit\nCHECK_DEADLOCK FALSE\n", "remote", workers=1, timeout=300,
                          limit=160 if quick else None)
        for h in hs:
            scen.append(dict(h))
        for (depth, num) in ([(5, 25)] if quick else [(5, 100), (7, 100)]):
            hs = ctx.generate(D, "Gen_Handshake", "CONSTANTS\n  MaxLen = %d\n  Part = \"invite\"\nSPECIFICATION GSpec\nINVARIANT Emit\nCHECK_DEADLOCK FALSE\n" % depth,
                              "inv_%d" % depth, workers=1, simulate="num=%d" % (num * 2), depth=depth + 1, timeout=300, limit=num)
            for h in hs:
                scen.append({"kind": "invite", "ops": h})
        scen.append({"kind": "tokens"})
        if not quick:
            # an unanswered proof request: the initialisation gives up after the network timeout (10 s each)
            for t in ("allowed", "invite", "owned"):
                scen.append({"kind": "handshake", "token": t, "expected": "u2", "remote": {"signer": "u2", "challenge": "this", "node": "signer", "answer": "none"}})
        for i, sc in enumerate(scen):
            sc["sid"] = i + 1
    sp = ctx.write_scenarios(scen)
    tp = os.path.join(ctx.work, "trace.ndjson")
    ctx.dv_world(sp, tp, nproc=4, sub="handshake")
    cfg = "CONSTANTS\n  KNOWN = {%s}\nSPECIFICATION TSpec\nINVARIANT Monitors\nPOSTCONDITION Reached\nCHECK_DEADLOCK FALSE\n" % (
        ", ".join('"%s"' % k for k in known_ids))
    res = ctx.validate(D, "Trace_Handshake", cfg, tp, "val", chunk=200, max_fail=6)
    by_sid = {sc["sid"]: sc for sc in scen}
    classes = set()
    for x in res:
        sc = by_sid[x["sid"]]
        if x["ok"]:
            ctx.cov["traces_validated_against_impl"] += 1
            for dv in x["devs"]:
                ctx.cov["deviations_observed"][dv] = ctx.cov["deviations_observed"].get(dv, 0) + 1
                ctx.known_finding(dv, next(f.get("what", "") for f in ctx.known if f["id"] == dv))
        else:
            ctx.violation(x["reason"], {"property": "C19", "scenario": sc, "reason": x["reason"], "trace": x["lines"]})
        if sc["kind"] == "handshake":
            r = sc["remote"]
            classes.add((sc["token"], sc["expected"], r["signer"], r["challenge"], r["node"], r["answer"]))
        else:
            classes.add(json.dumps(sc.get("ops", "tokens")))
    for sc in scen[:3]:
        ctx.cov["samples"].append(sc)
    ctx.assumptions += ["ed25519 and the Diffie-Hellman token derivation are ideal; symmetry / distinctness of tokens is checked on 4 sampled key materials only",
                        "the transport (QUIC, announces, connection election) is not exercised: the harness is the remote end of the query channel"]
    return ctx.finish("model_checking", "every remote behaviour of Gen_Handshake (token kind x expected key x signer x challenge x peer row x framing), sampled in the quick tier, "
                      "+ simulated invitation operation sequences on real peer managers + token table; non-trivial = distinct behaviour classes / sequences", len(classes))
