"""C20 - room synchronisation locks: exclusive, bounded, never lost.

spec/roomlock/RoomLockAbs.tla   property-level specification (decides)
spec/roomlock/RoomLock.tla      transcription of room_locking_service.rs; TLC checks that it refines
                                RoomLockAbs, its invariants, and liveness under fairness of releases
spec/roomlock/Gen_RoomLock.tla  scenario generator (every reachable (state, message) of the bounded model)
spec/roomlock/Trace_*.tla       trace specifications
"""
import json
import os
import vlib

D = os.path.join(vlib.SPEC, "roomlock")


def consts(conns, rooms, maxlock, maxreq=0, strings=False):
    q = (lambda x: '"%s"' % x) if strings else (lambda x: x)
    return "CONSTANTS\n  Conn = {%s}\n  Room = {%s}\n  MaxLock = %d\n  NoConn = %s\n" % (
        ", ".join(q(c) for c in conns), ", ".join(q(r) for r in rooms), maxlock, q("none") if strings else "NoConn") + (
        "  MaxReq = %d\n" % maxreq if maxreq is not None else "")


SAFETY = "SPECIFICATION Spec\nINVARIANTS TypeOK Bounded LockedIsGiven QueueConsistent NoDuplicateRooms NothingGrantableLeft\nPROPERTIES Refines\nCHECK_DEADLOCK FALSE\n"
LIVE = "SPECIFICATION FairSpec\nPROPERTIES EventuallyGranted\nCHECK_DEADLOCK FALSE\n"


def gen_cfg(conns, rooms, maxlock, maxlen):
    return consts(conns, rooms, maxlock, 0, True) + "  MaxLen = %d\nSPECIFICATION GSpec\nVIEW GView\nCONSTRAINT Bound\nINVARIANT Emit\nCHECK_DEADLOCK FALSE\n" % maxlen


def trace_cfg(maxlock):
    return consts(["c1", "c2", "c3"], ["r1", "r2", "r3"], maxlock, None, True) + \
        "SPECIFICATION TSpec\nINVARIANTS Bounded NothingGrantableLeft\nPOSTCONDITION Reached\nCHECK_DEADLOCK FALSE\n"


def strict_cfg(maxlock):
    return consts(["c1", "c2", "c3"], ["r1", "r2", "r3"], maxlock, 0, True) + \
        "SPECIFICATION TSpec\nPOSTCONDITION Reached\nCHECK_DEADLOCK FALSE\n"


def run(ctx, replay):
    quick = ctx.tier == "quick"
    ctx.build()
    if replay:
        scen = [json.load(open(replay))["scenario"]]
    else:
        # ---- 1. the design: TLC on the transcription
        C2, C3, R2, R3 = ["c1", "c2"], ["c1", "c2", "c3"], ["r1", "r2"], ["r1", "r2", "r3"]
        for (cs, rs, k) in ([(C2, R2, 1), (C2, R2, 2), (C3, R2, 1)] if quick else
                            [(C2, R2, 1), (C2, R2, 2), (C3, R2, 1), (C3, R2, 2), (C2, R3, 1), (C2, R3, 2)]):
            # (3 connections x 3 rooms has more than 600 000 states and does not finish in an hour: not part of any tier)
            ctx.model_check(D, "RoomLock", consts(cs, rs, k) + SAFETY, "mc_%d%d%d" % (len(cs), len(rs), k), timeout=600 if quick else 3000)
        for (cs, rs, k, n) in ([(C2, R2, 1, 3)] if quick else [(C2, R2, 1, 4), (C2, R2, 2, 4), (C3, R2, 1, 3), (C2, R3, 2, 3)]):
            ctx.model_check(D, "RoomLock", consts(cs, rs, k, n) + LIVE, "live_%d%d%d" % (len(cs), len(rs), k))
        # ---- 2. scenarios: every (state, message) of the bounded model
        scen = []
        for (cs, rs, k, n) in ([(C2, R2, 1, 5), (C2, R2, 2, 5), (C3, R2, 1, 3)] if quick else
                               [(C2, R2, 1, 8), (C2, R2, 2, 8), (C3, R2, 1, 6), (C3, R2, 2, 5), (C2, R3, 1, 6), (C2, R3, 2, 5)]):
            hs = ctx.generate(D, "Gen_RoomLock", gen_cfg(cs, rs, k, n), "gen_%d%d%d" % (len(cs), len(rs), k), workers=1, timeout=600 if quick else 3000)
            for h in vlib.drop_prefixes(hs):
                scen.append({"max": k, "steps": h})
        for i, sc in enumerate(scen):
            sc["sid"] = i + 1
    # ---- 3. replay on the real RoomLockService
    if replay and scen and "conn" in scen[0]:
        svc = []
    else:
        svc = scen
    sp = ctx.write_scenarios(svc)
    tp = os.path.join(ctx.work, "trace.ndjson")
    r = ctx.dv(["roomlock", sp, tp])
    ctx.cov["steps_executed"] += r.get("events", 0)
    # ---- 4. validate the traces
    by_sid = {sc["sid"]: sc for sc in svc}
    nontrivial = set()
    for k in sorted(set(sc["max"] for sc in svc)):
        sub = os.path.join(ctx.work, "trace_%d.ndjson" % k)
        with open(sub, "w") as f:
            for t in vlib.split_trace(tp):
                if by_sid[t["sid"]]["max"] == k:
                    f.write("\n".join(t["lines"]) + "\n")
                    if sum(1 for x in t["lines"] if '"grants":[{' in x) >= 2:
                        nontrivial.add(json.dumps(by_sid[t["sid"]]["steps"]))
        res = ctx.validate(D, "Trace_RoomLockAbs", trace_cfg(k), sub, "abs_%d" % k, chunk=3000)
        for x in res:
            if x["ok"]:
                ctx.cov["traces_validated_against_impl"] += 1
            else:
                ctx.violation(x["reason"], {"property": "C20", "scenario": by_sid[x["sid"]], "trace": x["lines"],
                                           "reason": x["reason"]})
        # strict layer: exact grant order of the transcription; informs only (drift), never decides
        res = ctx.validate(D, "Trace_RoomLock", strict_cfg(k), sub, "strict_%d" % k, chunk=3000)
        ctx.cov["drift_scenarios"] += sum(1 for x in res if not x["ok"])
        d = [x for x in res if not x["ok"]]
        if d and "drift_sample" not in ctx.cov:
            ctx.cov["drift_sample"] = d[0]["reason"]
    # ---- 5. the connection level: grants start real synchronisation tasks; connections end while tasks run
    if not replay or (replay and scen and "conn" in scen[0]):
        cl = "CONSTANTS\n  Conn = {%s}\n  Room = {%s}\n  MaxLock = %d\n  DEV = {%s}\n"
        if not replay:
            C3, R2 = '"c1", "c2", "c3"', '"r1", "r2"'
            inv = "SPECIFICATION Spec\nINVARIANTS ExclusiveSync BoundedSync HeldMeansRunning NoLostLock\nCHECK_DEADLOCK FALSE\n"
            ctx.model_check(D, "ConnLock", cl % (C3, R2, 1, "") + inv, "conn_design_1")
            ctx.model_check(D, "ConnLock", cl % (C3, R2, 2, "") + inv, "conn_design_2")
            ctx.expect_counterexample(D, "ConnLock", cl % (C3, R2, 1, '"CleanupReleasesRunningTasks"') + inv, "conn_cex_running")
            ctx.expect_counterexample(D, "ConnLock", cl % (C3, R2, 1, '"ExitForgetsPendingGrants"') + inv, "conn_cex_pending")
            # unbounded in the length of behaviours: Apalache discharges an inductive invariant of the design (ConnLockInd.tla)
            import subprocess
            import time
            t0 = time.time()
            outd = os.path.join(ctx.work, "apalache")
            steps = [("base", ["--init=Init", "--inv=IndInv", "--length=0"]), ("step", ["--init=IndInit", "--inv=IndInv", "--length=1"]),
                     ("implies-safety", ["--init=IndInit", "--inv=Safety", "--length=0"])]
            for name, args in steps:
                p = subprocess.run(["timeout", "1200", "apalache-mc", "check", "--cinit=ConstInit", "--out-dir=" + outd] + args + ["ConnLockInd.tla"],
                                   cwd=D, stdout=subprocess.PIPE, stderr=subprocess.STDOUT, text=True)
                if "EXITCODE: OK" not in p.stdout:
                    vlib.log(p.stdout[-2000:])
                    raise vlib.ToolError("Apalache: obligation %s of the inductive invariant of ConnLockInd.tla not discharged" % name)
            ctx.cov["model_runs"].append({"module": "ConnLockInd", "tool": "apalache-mc 0.58", "role": "inductive invariant (base, step, implies Safety) for 3 connections, 3 rooms, limit 1..3",
                                          "obligations": 3, "wall_s": round(time.time() - t0, 1)})
            cscen = []
            for (k, n) in ([(1, 7)] if quick else [(1, 9), (2, 9)]):
                hs = ctx.generate(D, "Gen_ConnLock", cl % (C3, R2, k, '"CleanupReleasesRunningTasks", "ExitForgetsPendingGrants"') +
                                  "  MaxLen = %d\nSPECIFICATION GSpec\nVIEW GView\nCONSTRAINT Bound\nINVARIANT Emit\nCHECK_DEADLOCK FALSE\n" % n,
                                  "conn_gen_%d" % k, workers=1, timeout=900)
                for h in hs:
                    steps = [({"op": "start", "c": o["c"]} if o["op"] == "start" else o) for o in h if o["op"] != "grant"]      # the service decides the grants
                    if steps:
                        # then every connection ends, every task ends, and a new connection asks for each room in turn
                        tail = [{"op": "exit", "c": c} for c in ("c1", "c2", "c3")] + [{"op": "drain", "c": "c1"}]
                        for r in ("r1", "r2"):
                            tail += [{"op": "req", "c": "probe", "r": r}, {"op": "start", "c": "probe"}, {"op": "done", "c": "probe", "r": r}]
                        cscen.append({"max": k, "steps": steps + tail, "conn": True})
            seen = set()
            uniq = []
            for sc in cscen:
                key = json.dumps(sc, sort_keys=True)
                if key not in seen:
                    seen.add(key)
                    uniq.append(sc)
            import random
            rnd = random.Random(ctx.seed)
            if quick and len(uniq) > 400:
                uniq = rnd.sample(uniq, 400)
            for i, sc in enumerate(uniq):
                sc["sid"] = 100000 + i
            cscen = uniq
        else:
            cscen = scen
        csp = ctx.write_scenarios(cscen, "conn_scenarios.ndjson")
        ctp = os.path.join(ctx.work, "conn_trace.ndjson")
        ctx.dv_world(csp, ctp, nproc=4, sub="connlock")
        known_ids = [f["id"] for f in ctx.known]
        ccfg = "CONSTANTS\n  KNOWN = {%s}\nSPECIFICATION TSpec\nINVARIANT Monitors\nPOSTCONDITION Reached\nCHECK_DEADLOCK FALSE\n" % (
            ", ".join('"%s"' % k for k in known_ids))
        cby = {sc["sid"]: sc for sc in cscen}
        for x in ctx.validate(D, "Trace_ConnLock", ccfg, ctp, "conn_val", chunk=300, max_fail=5):
            if x["ok"]:
                ctx.cov["traces_validated_against_impl"] += 1
                for dv in x["devs"]:
                    ctx.cov["deviations_observed"][dv] = ctx.cov["deviations_observed"].get(dv, 0) + 1
                    ctx.known_finding(dv, next(f.get("what", "") for f in ctx.known if f["id"] == dv))
            else:
                ctx.violation(x["reason"], {"property": "C20", "scenario": cby[x["sid"]], "trace": x["lines"], "reason": x["reason"]})
        ctx.cov["connection_level_scenarios"] = len(cscen)
    for t in vlib.split_trace(tp)[:3]:
        ctx.cov["samples"].append({"scenario": by_sid[t["sid"]], "trace": [json.loads(x) for x in t["lines"]]})
    ctx.assumptions += ["one message is handled atomically by the service actor (observed after the actor went back to waiting)",
                        "bounds: 2-3 connections, 2-3 rooms (not 3 and 3 together: 860 000 states at length 4), limit 1-2, message sequences up to the generator's MaxLen",
                        "connection level: a task is kept running by leaving its first query unanswered; the grant a connection receives and the start of its task are one step"]
    return ctx.finish("model_checking",
                      "scenarios = message sequences reaching every (service state, last message) of the bounded RoomLock model "
                      "(TLC, VIEW hiding the history), prefixes removed; non-trivial = distinct sequences in which at least two "
                      "messages were followed by a grant", len(nontrivial), exhaustive=not replay)
