"""C06 - a signature binds exactly one row and only its author can produce it.
spec/digest: Digest.tla (pre-image of the four signed kinds as the code builds it; framed encoding), Gen_Digest (all collisions and all
one-field differences of the universe), Trace_Digest; harness: dv digest (real sign / verify, real ProveIdentity answer)."""
import json
import os
import re
import vlib

D = os.path.join(vlib.SPEC, "digest")


def run(ctx, replay):
    quick = ctx.tier == "quick"
    ctx.build()
    known_ids = [f["id"] for f in ctx.known]
    if replay:
        scen = [json.load(open(replay))["scenario"]]
    else:
        out, st = ctx.tlc(D, "Gen_Digest", "SPECIFICATION Spec\nINVARIANT FramedInjective\nCHECK_DEADLOCK FALSE\n", "universe", workers=1, timeout=1500)
        if st.get("violated"):
            raise vlib.ToolError("the framed encoding of Digest.tla is not injective")
        m = re.search(r'<<"COUNTS", (\d+), (\d+), (\d+)>>', out)
        rows, ncol, none = (int(x) for x in m.groups())
        ctx.cov["states"] += rows
        ctx.cov["transitions"] += rows * rows
        ctx.cov["model_runs"].append({"module": "Gen_Digest", "rows": rows, "pairs_compared": rows * rows, "collisions_in_the_model": ncol, "one_field_differences": none})
        pairs = []
        for mm in re.finditer(r'<<"SCN", "((?:[^"\\]|\\.)*)">>', out):
            pairs.append(json.loads(vlib.tla_unescape(mm.group(1))))
        col = [p for p in pairs if p["expect"] == "collide"]
        prot = [p for p in pairs if p["class"] == "JsonQuotingSeparates"]
        dis = [p for p in pairs if p["expect"] == "distinct" and p["class"] != "JsonQuotingSeparates"]
        import random
        rnd = random.Random(ctx.seed)
        if quick:
            col = rnd.sample(col, min(len(col), 600))
            dis = rnd.sample(dis, min(len(dis), 1500))
        scen = col + dis + prot
        scen.append({"oracle": {"kind": "node", "id": "ab", "room": "aa", "c": "a", "m": "b", "ent": "ab", "json": "-", "bin": "a"}})
        scen.append({"oracle": {"kind": "node", "id": "aa", "room": "-", "c": "b", "m": "b", "ent": "a", "json": "-", "bin": "-"}})
        for i, sc in enumerate(scen):
            sc["sid"] = i + 1
    sp = ctx.write_scenarios(scen)
    tp = os.path.join(ctx.work, "trace.ndjson")
    ctx.dv_world(sp, tp, nproc=4, sub="digest")
    cfg = "CONSTANTS\n  KNOWN = {%s}\nSPECIFICATION TSpec\nINVARIANT Monitors\nPOSTCONDITION Reached\nCHECK_DEADLOCK FALSE\n" % (
        ", ".join('"%s"' % k for k in known_ids))
    res = ctx.validate(D, "Trace_Digest", cfg, tp, "val", chunk=800, max_fail=6)
    by_sid = {sc["sid"]: sc for sc in scen}
    classes = set()
    for x in res:
        sc = by_sid[x["sid"]]
        if x["ok"]:
            ctx.cov["traces_validated_against_impl"] += 1
            for dv in x["devs"]:
                ctx.cov["deviations_observed"][dv] = ctx.cov["deviations_observed"].get(dv, 0) + 1
                ctx.known_finding(dv, next(f.get("what", "") for f in ctx.known if f["id"] == dv))
        else:
            ctx.violation(x["reason"], {"property": "C06", "scenario": sc, "reason": x["reason"], "trace": x["lines"]})
        if "r1" in sc:
            classes.add((sc["r1"]["kind"], sc["r2"]["kind"], sc["expect"], sc["class"], json.dumps(sc["r1"])))
    for sc in scen[:3]:
        ctx.cov["samples"].append(sc)
    ctx.assumptions += ["blake3 is collision resistant and ed25519 unforgeable (ideal in the model)",
                        "fields over a two-letter alphabet, one model character = one 8-byte block; JSON payloads are not part of the universe (binary payloads are)"]
    return ctx.finish("model_checking", "all pairs of the universe of Digest.tla with equal pre-images and all pairs differing in exactly one field (sampled in the quick tier) "
                      "+ two signing-oracle requests; non-trivial = distinct (kinds, verdict, class, first row)", len(classes), exhaustive=not quick and not replay)
