//! C14: sequences of inputs chosen by the specification (shapes of Service.tla, instantiated by the check) are given to
//! a real instance through its entry points; after each input the harness records what the call returned, how many
//! threads panicked meanwhile, and whether the reader pool, the writer, the verifier pool and the serving loop of the
//! instance still answer a fixed probe.
use crate::common::*;
use crate::handshake::{manager, Party};
use crate::scen::signing_key_of;
use crate::world::*;
use discret::verif_hooks as vh;
use discret::{Configuration, Parameters};
use serde_json::{json, Value};
use std::collections::HashSet;
use std::panic::AssertUnwindSafe;
use std::sync::atomic::{AtomicU64, Ordering};
use std::sync::Mutex;
use std::time::Duration;
use vh::database::edge::{Edge, EdgeDeletionEntry};
use vh::database::node::{Node, NodeDeletionEntry, NodeIdentifier};
use vh::database::query_language::data_model_parser::DataModel;
use vh::security::Uid;
use vh::synchronisation::peer_outbound_service::{InboundQueryService, RemotePeerHandle};
use vh::synchronisation::{Answer, Query, QueryProtocol};

static PANICS: AtomicU64 = AtomicU64::new(0);
static LAST_PANIC: Mutex<String> = Mutex::new(String::new());

fn unhex(h: &str) -> Vec<u8> {
    (0..h.len() / 2).map(|i| u8::from_str_radix(&h[2 * i..2 * i + 2], 16).unwrap_or(0)).collect()
}
fn short(e: String) -> String {
    // error messages quote the input: keep what a trace reader can display
    e.chars().take(160).map(|c| if (' '..='~').contains(&c) && c != '"' && c != '\\' { c } else { '?' }).collect()
}
/// an error text produced by the storage engine for a statement it was given, as opposed to a refusal by the library
fn class_of(e: &str) -> String {
    let low = e.to_lowercase();
    let engine = ["syntax error", "no such column", "no such table", "unrecognized token", "sql logic", "malformed json", "misuse", "incomplete input", "ambiguous column",
        "no such function", "wrong number of arguments", "bind or column index", "invalid parameter", "json path error", "bad json path", "parser stack overflow", "too many"];
    if engine.iter().any(|p| low.contains(p)) {
        format!("engine:{}", short(e.to_string()))
    } else if low.contains("channel closed") || low.contains("recverror") || low.contains("sending on a closed") || low.contains("receiving on a closed") {
        format!("dead:{}", short(e.to_string()))
    } else {
        format!("refused:{}", short(e.to_string()))
    }
}

struct Conn {
    q_send: tokio::sync::mpsc::Sender<QueryProtocol>,
    a_recv: tokio::sync::mpsc::Receiver<Answer>,
    inbound: InboundQueryService,
    next_id: u64,
}

struct Inst {
    model: String,
    party: Party,
    room: Uid,
    probe_row: String,
    conn: Conn,
}

async fn start_conn(peer: &Peer, room: Uid) -> Conn {
    let (q_send, q_recv) = tokio::sync::mpsc::channel::<QueryProtocol>(10);
    let (a_send, a_recv) = tokio::sync::mpsc::channel::<Answer>(10000);
    let handle = RemotePeerHandle { allowed_room: HashSet::new(), db: peer.db.clone(), verifying_key: peer.vkey.clone(), reply: a_send };
    let remote_key = std::sync::Arc::new(tokio::sync::Mutex::new(peer.vkey.clone()));
    let ready = std::sync::Arc::new(std::sync::atomic::AtomicBool::new(true));
    let (dummy_send, mut dummy_recv) = tokio::sync::mpsc::channel::<vh::peer_connection_service::PeerConnectionMessage>(32);
    tokio::spawn(async move { while dummy_recv.recv().await.is_some() {} });
    let inbound = InboundQueryService::start(
        vh::security::HardwareFingerprint { id: Default::default(), name: "dv".to_string() },
        [7u8; 32],
        Default::default(),
        handle,
        q_recv,
        vh::peer_connection_service::PeerConnectionService { sender: dummy_send },
        remote_key,
        ready,
    );
    inbound.add_allowed_room(room);
    Conn { q_send, a_recv, inbound, next_id: 1 }
}

/// send one query to the serving loop and wait for the answer to a marker query sent after it
async fn ask(conn: &mut Conn, query: Query) -> String {
    let id = conn.next_id;
    conn.next_id += 2;
    if conn.q_send.send(QueryProtocol { id, query }).await.is_err() {
        return "dead:serving loop closed".to_string();
    }
    if conn.q_send.send(QueryProtocol { id: id + 1, query: Query::RoomNode([0xEE; 16]) }).await.is_err() {
        return "dead:serving loop closed".to_string();
    }
    let mut res = "ok:no answer".to_string();
    loop {
        match tokio::time::timeout(Duration::from_secs(15), conn.a_recv.recv()).await {
            Ok(Some(a)) => {
                if a.id == id + 1 {
                    return res;
                }
                if a.id == id {
                    res = if a.success { "ok".to_string() } else { "refused:answer without success".to_string() };
                }
            }
            Ok(None) => return "dead:answer channel closed".to_string(),
            Err(_) => return "hang".to_string(),
        }
    }
}

fn params_of(v: &Value) -> Result<Option<Parameters>, String> {
    match v {
        Value::Null => Ok(None),
        Value::String(text) => Parameters::from_json(text).map(Some).map_err(|e| e.to_string()),
        other => Parameters::from_json(&serde_json::to_string(other).unwrap()).map(Some).map_err(|e| e.to_string()),
    }
}

fn key_of(spec: &str, own: &[u8]) -> Vec<u8> {
    match spec {
        "own" => own.to_vec(),
        h => unhex(h),
    }
}

async fn probe(inst: &mut Inst, readers: usize) -> Value {
    let peer = &inst.party.peer;
    let mut read = "ok".to_string();
    for _ in 0..readers + 2 {
        match tokio::time::timeout(Duration::from_secs(10), peer.db.query("query { zz.Probe { name } }", None)).await {
            Ok(Ok(r)) => {
                if !r.contains("\"probe\"") {
                    read = format!("wrong:{}", short(r));
                }
            }
            Ok(Err(e)) => read = class_of(&e.to_string()),
            Err(_) => read = "hang".to_string(),
        }
    }
    let write = match tokio::time::timeout(Duration::from_secs(10), peer.db.mutate("mutate { zz.Probe { id:$id name:\"probe\" } }", params(&[("id", inst.probe_row.clone())]))).await {
        Ok(Ok(_)) => "ok".to_string(),
        Ok(Err(e)) => class_of(&e.to_string()),
        Err(_) => "hang".to_string(),
    };
    let mut verify = "ok".to_string();
    let good = peer.db.get_peer_node(peer.vkey.clone()).await.ok().flatten();
    match good {
        Some(n) => {
            for _ in 0..4 {
                use futures::FutureExt;
                match tokio::time::timeout(Duration::from_secs(10), AssertUnwindSafe(peer.services.signature_verification.verify_nodes(vec![n.clone()])).catch_unwind()).await {
                    Ok(Ok(Ok(_))) => {}
                    Ok(Ok(Err(e))) => verify = class_of(&e.to_string()),
                    Ok(Err(_)) => verify = "dead:the verifier does not answer".to_string(),
                    Err(_) => verify = "hang".to_string(),
                }
            }
        }
        None => verify = "dead:no peer node".to_string(),
    }
    let serve = ask(&mut inst.conn, Query::RoomList).await;
    json!({"read": read, "write": write, "verify": verify, "serve": serve})
}

async fn start_inst(model: &str, n: usize, config: &Configuration) -> Result<Inst, String> {
    let mut folder = run_dir();
    folder.push(format!("in{n}"));
    set_clock(0, 10);
    let full = format!("{model} zz {{ Probe {{ name: String }} }}");
    let peer = Peer::start_in("in", "u1", &full, config, folder).await?;
    let room = create_open_room(&peer, &[peer.vkey.clone()]).await?;
    let rid = vh::security::uid_encode(&room);
    let r = peer.db.mutate("mutate { zz.Probe { room_id:$room name:\"probe\" } }", params(&[("room", rid)])).await.map_err(|e| e.to_string())?;
    let rv: Value = serde_json::from_str(&r).unwrap_or(Value::Null);
    let probe_row = rv["zz.Probe"]["id"].as_str().ok_or(format!("no id in {r}"))?.to_string();
    let node = peer.db.get_peer_node(peer.vkey.clone()).await.map_err(|e| e.to_string())?.ok_or("no peer node")?;
    let conn = start_conn(&peer, room).await;
    Ok(Inst { model: model.to_string(), party: Party { peer, node }, room, probe_row, conn })
}

fn short_of(dm: &Value, name: &str) -> String {
    // storage name of an entity, from the serialised model
    fn walk(v: &Value, name: &str) -> Option<String> {
        match v {
            Value::Object(m) => {
                if m.get("name").and_then(|x| x.as_str()) == Some(name) {
                    if let Some(s) = m.get("short_name").and_then(|x| x.as_str()) {
                        if m.contains_key("fields") {
                            return Some(s.to_string());
                        }
                    }
                }
                m.values().find_map(|x| walk(x, name))
            }
            Value::Array(a) => a.iter().find_map(|x| walk(x, name)),
            _ => None,
        }
    }
    walk(dm, name).unwrap_or_else(|| name.to_string())
}

async fn run_input(inst: &mut Inst, inp: &Value, config: &Configuration) -> String {
    let op = s(inp, "op");
    let peer = &inst.party.peer;
    let rid = vh::security::uid_encode(&inst.room);
    let with_room = |p: &Value| -> Value {
        // "$ROOM" in a parameter object stands for the room of the instance
        match p {
            Value::Object(m) => Value::Object(m.iter().map(|(k, v)| (k.clone(), if v == "$ROOM" { json!(rid) } else { v.clone() })).collect()),
            other => other.clone(),
        }
    };
    let fut = async {
        match op.as_str() {
            "model_parse" => {
                let text = s(inp, "text");
                match std::panic::catch_unwind(AssertUnwindSafe(|| {
                    let mut dm = DataModel::new();
                    dm.update(&text).map(|_| ()).map_err(|e| e.to_string())
                })) {
                    Ok(Ok(())) => "ok".to_string(),
                    Ok(Err(e)) => class_of(&e),
                    Err(_) => "panic".to_string(),
                }
            }
            "params_json" => match std::panic::catch_unwind(AssertUnwindSafe(|| Parameters::from_json(&s(inp, "text")).map(|_| ()).map_err(|e| e.to_string()))) {
                Ok(Ok(())) => "ok".to_string(),
                Ok(Err(e)) => class_of(&e),
                Err(_) => "panic".to_string(),
            },
            "query" | "mutate" | "delete" => {
                let p = match params_of(&with_room(&inp["params"])) {
                    Ok(p) => p,
                    Err(e) => return class_of(&e),
                };
                let text = s(inp, "text");
                let r = match op.as_str() {
                    "query" => peer.db.query(&text, p).await.map(|_| ()),
                    "mutate" => peer.db.mutate(&text, p).await.map(|_| ()),
                    _ => peer.db.delete(&text, p).await.map(|_| ()),
                };
                match r {
                    Ok(()) => "ok".to_string(),
                    Err(e) => class_of(&e.to_string()),
                }
            }
            "verify" => {
                let sv = &peer.services.signature_verification;
                let key = key_of(&s(inp, "key"), &peer.vkey);
                let sig = unhex(&s(inp, "sig"));
                let r = match s(inp, "what").as_str() {
                    "nodes" => {
                        let mut n = inst.party.node.clone();
                        n.verifying_key = key;
                        n._signature = sig;
                        sv.verify_nodes(vec![n]).await.map(|_| ())
                    }
                    "edges" => {
                        let e = Edge { src: inst.party.node.id, src_entity: "x".to_string(), label: "l".to_string(), dest: inst.party.node.id, cdate: 1, verifying_key: key, signature: sig };
                        sv.verify_edges(vec![e]).await.map(|_| ())
                    }
                    "nlog" => {
                        let e = NodeDeletionEntry { room_id: inst.room, id: inst.party.node.id, entity: "x".to_string(), mdate: 1, deletion_date: 2, verifying_key: key, signature: sig, entity_name: None };
                        sv.verify_node_log(vec![e]).await.map(|_| ())
                    }
                    "elog" => {
                        let e = EdgeDeletionEntry { room_id: inst.room, src: inst.party.node.id, src_entity: "x".to_string(), dest: inst.party.node.id, label: "l".to_string(), cdate: 1, deletion_date: 2,
                            verifying_key: key, signature: sig, entity_name: None };
                        sv.verify_edge_log(vec![e]).await.map(|_| ())
                    }
                    _ => {
                        let ok = sv.verify_hash(sig, [3u8; 32], key).await;
                        if ok { Ok(()) } else { Err(discret::Error::InvalidSigner()) }
                    }
                };
                match r {
                    Ok(()) => "ok".to_string(),
                    Err(e) => class_of(&e.to_string()),
                }
            }
            "row" => {
                // a row signed by a user that may write in the room (the instance's own key), with odd content, through the ingestion path
                let dm: Value = serde_json::from_str(&peer.db.datamodel().await.unwrap_or_default()).unwrap_or(Value::Null);
                let ent = match inp["entity"].as_str() {
                    Some(e) if e.starts_with('=') => e[1..].to_string(),
                    Some(e) => short_of(&dm, e),
                    None => short_of(&dm, "Probe"),
                };
                let sk = signing_key_of("u1");
                let mut n = Node { id: vh::security::new_uid(), room_id: Some(inst.room), cdate: inp["cdate"].as_i64().unwrap_or(1000), mdate: inp["mdate"].as_i64().unwrap_or(1000), _entity: ent,
                    _json: inp["json"].as_str().map(|x| x.to_string()), _binary: inp["binary"].as_str().map(unhex), verifying_key: peer.vkey.clone(), _signature: vec![], _local_id: None };
                if let Some(idh) = inp["id"].as_str() {
                    let b = unhex(idh);
                    if b.len() == 16 {
                        n.id.copy_from_slice(&b);
                    }
                }
                if n.sign(&sk).is_err() {
                    return "refused:cannot be signed".to_string();
                }
                let mut set = HashSet::new();
                set.insert(NodeIdentifier { id: n.id, mdate: n.mdate, signature: n._signature.clone() });
                let filtered = match peer.db.filter_existing_node(inst.room, set).await {
                    Ok(f) => f,
                    Err(e) => return class_of(&e.to_string()),
                };
                let nodes = match peer.services.signature_verification.verify_nodes(vec![n]).await {
                    Ok(v) => v,
                    Err(e) => return class_of(&e.to_string()),
                };
                let mut ntis = Vec::new();
                for mut nti in filtered {
                    for n in &nodes {
                        if n.id == nti.id {
                            let mut n = n.clone();
                            n._local_id = nti.old_local_id;
                            nti.node = Some(n);
                        }
                    }
                    ntis.push(nti);
                }
                match peer.db.add_nodes(inst.room, ntis).await {
                    Ok(_) => "ok".to_string(),
                    Err(e) => class_of(&e.to_string()),
                }
            }
            "invite" => {
                let (mut pm, _rx) = manager(&inst.party, APP_KEY, config).await;
                let bytes = match s(inp, "bytes").as_str() {
                    "valid" => pm.create_invite(None).await.unwrap_or_default(),
                    h if h.starts_with("cut:") => {
                        let v = pm.create_invite(None).await.unwrap_or_default();
                        let n: usize = h[4..].parse().unwrap_or(0);
                        v[..n.min(v.len())].to_vec()
                    }
                    h if h.starts_with("flip:") => {
                        let mut v = pm.create_invite(None).await.unwrap_or_default();
                        let n: usize = h[5..].parse().unwrap_or(0);
                        if !v.is_empty() {
                            let k = n % v.len();
                            v[k] ^= 0xff;
                        }
                        v
                    }
                    h => unhex(h),
                };
                match pm.accept_invite(&bytes).await {
                    Ok(_) => "ok".to_string(),
                    Err(e) => class_of(&e.to_string()),
                }
            }
            "decode" => {
                let b = unhex(&s(inp, "bytes"));
                let r = std::panic::catch_unwind(AssertUnwindSafe(|| match s(inp, "ty").as_str() {
                    "query" => vh::bincode::deserialize::<QueryProtocol>(&b).map(|_| ()).map_err(|e| e.to_string()),
                    "answer" => vh::bincode::deserialize::<Answer>(&b).map(|_| ()).map_err(|e| e.to_string()),
                    "roomnode" => vh::bincode::deserialize::<vh::database::room_node::RoomNode>(&b).map(|_| ()).map_err(|e| e.to_string()),
                    "nodes" => vh::bincode::deserialize::<Vec<Node>>(&b).map(|_| ()).map_err(|e| e.to_string()),
                    _ => vh::bincode::deserialize::<vh::synchronisation::RemoteEvent>(&b).map(|_| ()).map_err(|e| e.to_string()),
                }));
                match r {
                    Ok(Ok(())) => "ok".to_string(),
                    Ok(Err(e)) => format!("refused:{}", short(e)),
                    Err(_) => "panic".to_string(),
                }
            }
            "peer_query" => {
                let room = match inp["room"].as_str() {
                    Some("own") => inst.room,
                    Some(h) => {
                        let mut u: Uid = Default::default();
                        let b = unhex(h);
                        if b.len() == 16 {
                            u.copy_from_slice(&b);
                        }
                        u
                    }
                    None => Default::default(),
                };
                let ent = inp["entity"].as_str().unwrap_or("").to_string();
                let date = inp["date"].as_i64().unwrap_or(0);
                let count = inp["count"].as_u64().unwrap_or(0) as usize;
                let ids: Vec<Uid> = (0..count).map(|k| { let mut u: Uid = Default::default(); u[0] = k as u8; u[1] = (k >> 8) as u8; u }).collect();
                let q = match s(inp, "q").as_str() {
                    "RoomDefinition" => Query::RoomDefinition(room),
                    "RoomNode" => Query::RoomNode(room),
                    "RoomLog" => Query::RoomLog(room),
                    "RoomLogAt" => Query::RoomLogAt(room, date),
                    "EdgeDeletionLog" => Query::EdgeDeletionLog(room, ent, date),
                    "NodeDeletionLog" => Query::NodeDeletionLog(room, ent, date),
                    "RoomDailyNodes" => Query::RoomDailyNodes(room, ent, date),
                    "Nodes" => Query::Nodes(room, ids),
                    "Edges" => Query::Edges(room, ids.into_iter().map(|u| (u, date)).collect()),
                    "PeersForRoom" => Query::PeersForRoom(room),
                    "ProveIdentity" => Query::ProveIdentity(vec![1u8; count]),
                    _ => Query::RoomList,
                };
                ask(&mut inst.conn, q).await
            }
            other => format!("refused:unknown op {other}"),
        }
    };
    use futures::FutureExt;
    match tokio::time::timeout(Duration::from_secs(20), AssertUnwindSafe(fut).catch_unwind()).await {
        Ok(Ok(r)) => r,
        Ok(Err(_)) => "panic".to_string(),
        Err(_) => "hang".to_string(),
    }
}

pub fn main(args: &[String]) -> i32 {
    if args.len() < 2 {
        eprintln!("usage: dv inputs <scenarios.ndjson> <trace.ndjson>");
        return 2;
    }
    let scenarios = read_scenarios(&args[0]);
    let mut out = TraceWriter::create(&args[1]);
    std::panic::set_hook(Box::new(|info| {
        PANICS.fetch_add(1, Ordering::SeqCst);
        let loc = info.location().map(|l| format!("{}:{}", l.file(), l.line())).unwrap_or_default();
        if std::env::var("DV_DEBUG").is_ok() {
            eprintln!("panic at {loc}: {info}");
        }
        *LAST_PANIC.lock().unwrap() = loc;
    }));
    let rt = tokio::runtime::Builder::new_multi_thread().worker_threads(3).enable_all().build().unwrap();
    rt.block_on(async {
        let mut config = Configuration::default();
        config.parallelism = 2;
        let mut current: Option<Inst> = None;
        for (n, sc) in scenarios.iter().enumerate() {
            out.emit(json!({"ev":"begin","sid":sc["sid"]}));
            let model = s(sc, "model");
            if current.as_ref().map(|c| c.model != model).unwrap_or(true) {
                current = None;
                let before = PANICS.load(Ordering::SeqCst);
                match start_inst(&model, n, &config).await {
                    Ok(i) => current = Some(i),
                    Err(e) => {
                        let p = PANICS.load(Ordering::SeqCst) - before;
                        out.emit(json!({"ev":"start","valid":sc["model_valid"],"outcome":class_of(&e),"panics":p,"where":LAST_PANIC.lock().unwrap().clone()}));
                        out.emit(json!({"ev":"end"}));
                        continue;
                    }
                }
            }
            out.emit(json!({"ev":"start","valid":sc["model_valid"],"outcome":"ok","panics":0,"where":""}));
            let mut dead = false;
            for (k, inp) in arr(sc, "inputs").iter().enumerate() {
                let inst = current.as_mut().unwrap();
                let before = PANICS.load(Ordering::SeqCst);
                let outcome = run_input(inst, inp, &config).await;
                // give a panicking service thread the time to die before probing
                tokio::time::sleep(Duration::from_millis(2)).await;
                let pr = probe(inst, config.parallelism).await;
                let p = PANICS.load(Ordering::SeqCst) - before;
                let wh = if p > 0 { LAST_PANIC.lock().unwrap().clone() } else { String::new() };
                let alive = pr["read"] == "ok" && pr["write"] == "ok" && pr["verify"] == "ok" && pr["serve"] == "ok";
                out.emit(json!({"ev":"input","shape":inp["shape"],"op":inp["op"],"valid":inp["valid"],"outcome":outcome,"panics":p,"where":wh,"probe":pr,"n":k}));
                if !alive || p > 0 {
                    // the instance lost a thread: the rest of the scenario would only repeat the finding
                    dead = true;
                    break;
                }
            }
            out.emit(json!({"ev":"end"}));
            out.flush();
            if dead {
                current = None;
            }
        }
    });
    out.flush();
    println!("{{\"scenarios\":{},\"events\":{}}}", scenarios.len(), out.events);
    cleanup_run_dir();
    std::process::exit(0);
}
