//! `dv world`: interpreter of abstract operation sequences on a world of real peers.
//!
//! scenario: {"sid":n, "peers":["p1","p2"], "users":{"p1":"u1","p2":"u1"}, "steps":[op,...]}
//! ops     : tick / room / put / ref / unref / del / move / pull / compute / quiesce / search / restart
//! trace   : begin, one event per op {"ev":op,...,"res":"ok"|"err","st":{peer: projection}}, end
use crate::common::*;
use crate::world::*;
use discret::verif_hooks as vh;
use discret::Configuration;
use serde_json::{json, Map, Value};
use std::collections::{BTreeMap, HashMap, HashSet};
use vh::security::{uid_encode, Uid};

pub struct World {
    pub peers: BTreeMap<String, Peer>,
    pub rx: HashMap<String, tokio::sync::broadcast::Receiver<discret::Event>>,
    pub short: BTreeMap<String, String>, // entity name -> storage short name
    pub long: HashMap<String, String>,   // short -> abstract name ("A", "B")
    pub config: Configuration,
}

pub struct Scn {
    pub names: Names,
    pub hash_ids: HashMap<Vec<u8>, i64>,
    pub terms: HashMap<Vec<u8>, String>,
    pub peers: Vec<String>,
    pub events: bool,
    pub defs: bool,
    pub auth_ids: HashMap<(String, String), Uid>,
    pub user_key: HashMap<String, Vec<u8>>,
    pub defs_cache: Option<Value>,
    pub live_rooms: HashMap<(String, Uid), std::sync::Arc<vh::database::room::Room>>,
    pub conns: HashMap<String, ServeConn>,
    /// room-modified events a peer must still deliver (one per accepted room creation or update), waited for by `serve`
    pub pending_room_events: HashMap<String, usize>,
    /// room-modified events read from the peers' channels and not yet handed to a serving connection
    pub room_queue: HashMap<String, Vec<std::sync::Arc<vh::database::room::Room>>>,
    /// rooms created or updated on a peer since its last `serve`
    pub touched_rooms: HashMap<String, HashSet<Uid>>,
}

impl World {
    pub async fn new() -> World {
        let mut config = Configuration::default();
        config.parallelism = 2;
        World { peers: BTreeMap::new(), rx: HashMap::new(), short: BTreeMap::new(), long: HashMap::new(), config }
    }

    pub async fn ensure_peer(&mut self, name: &str, user: &str) {
        if !self.peers.contains_key(name) {
            let p = Peer::start(name, user, MODEL, &self.config).await;
            if self.short.is_empty() {
                self.short = short_names(&p).await;
                for (n, s) in &self.short {
                    if let Some(a) = n.strip_prefix("v.") {
                        self.long.insert(s.clone(), a.to_string());
                    }
                }
                if self.long.len() < 2 {
                    panic!("could not read entity short names: {:?}", self.short);
                }
            }
            let rx = p.services.events.subcribe().await;
            self.rx.insert(name.to_string(), rx);
            self.peers.insert(name.to_string(), p);
        }
    }

    pub fn app_shorts(&self) -> Vec<String> {
        self.long.keys().cloned().collect()
    }

    pub fn ent_full(&self, abs: &str) -> String {
        format!("v.{abs}")
    }
}

/// Representation of the specification's hash terms: D(S) = blake3 of the signatures of S in byte order,
/// H(a,b) = blake3(a || b), H(a) = blake3(a).  The dictionary maps hash bytes back to the term (as the string
/// TLC prints for it); what the log *should* contain is decided by the specification, not here.
pub fn learn_contents(scn: &mut Scn, st: &RawStore) {
    let my_rooms: HashSet<Uid> = scn.names.rooms.values().cloned().collect();
    let mut groups: HashMap<(Uid, String, i64), Vec<&Vec<u8>>> = HashMap::new();
    for n in &st.nodes {
        if let Some(r) = n.room {
            if !my_rooms.contains(&r) {
                continue;
            }
            groups.entry((r, n.entity.clone(), (n.mdate - BASE_DAY).div_euclid(DAY_MS))).or_default().push(&n.sig);
        }
    }
    for t in &st.ntombs {
        if !my_rooms.contains(&t.room) {
            continue;
        }
        groups.entry((t.room, t.entity.clone(), (t.ddate - BASE_DAY).div_euclid(DAY_MS))).or_default().push(&t.sig);
    }
    for t in &st.etombs {
        if !my_rooms.contains(&t.room) {
            continue;
        }
        groups.entry((t.room, t.src_entity.clone(), (t.ddate - BASE_DAY).div_euclid(DAY_MS))).or_default().push(&t.sig);
    }
    for (_, mut sigs) in groups {
        sigs.sort();
        let mut hasher = blake3::Hasher::new();
        let mut ints: Vec<i64> = Vec::new();
        for s in &sigs {
            hasher.update(s);
            ints.push(sig_int(s));
        }
        ints.sort();
        let term = format!("{{{}}}", ints.iter().map(|x| x.to_string()).collect::<Vec<_>>().join(", "));
        scn.terms.entry(hasher.finalize().as_bytes().to_vec()).or_insert(term);
    }
}

pub fn close_terms(scn: &mut Scn, observed: &[Vec<u8>]) {
    // chain terms: an observed hash that is not yet explained is tried as H(a,b) / H(a) for every explained
    // a, b; only matches are added, so the dictionary stays small
    for _ in 0..4 {
        let unknown: HashSet<&Vec<u8>> = observed.iter().filter(|o| !scn.terms.contains_key(*o)).collect();
        if unknown.is_empty() {
            break;
        }
        let known: Vec<(Vec<u8>, String)> = scn.terms.iter().map(|(k, v)| (k.clone(), v.clone())).collect();
        let mut found: Vec<(Vec<u8>, String)> = Vec::new();
        for (a, ta) in &known {
            let mut h = blake3::Hasher::new();
            h.update(a);
            let r = h.finalize().as_bytes().to_vec();
            if unknown.contains(&r) {
                found.push((r, format!("H({ta})")));
            }
            for (b, tb) in &known {
                let mut h = blake3::Hasher::new();
                h.update(a);
                h.update(b);
                let r = h.finalize().as_bytes().to_vec();
                if unknown.contains(&r) {
                    found.push((r, format!("H({ta},{tb})")));
                }
            }
        }
        if found.is_empty() {
            break;
        }
        for (k, v) in found {
            scn.terms.entry(k).or_insert(v);
        }
    }
}

fn hash_term(scn: &mut Scn, h: &Option<Vec<u8>>) -> Value {
    match h {
        None => json!("none"),
        Some(b) => match scn.terms.get(b) {
            Some(t) => json!(t),
            None => {
                let n = scn.hash_ids.len() as i64 + 1;
                json!(format!("X{}", *scn.hash_ids.entry(b.clone()).or_insert(n)))
            }
        },
    }
}

/// projection of one peer's storage onto the specification's variables, restricted to the scenario
pub async fn project(world: &World, scn: &mut Scn, pname: &str) -> Value {
    let peer = &world.peers[pname];
    let st = read_store(peer, world.app_shorts(), scn.names.rooms.values().cloned().collect(), scn.names.rows.values().cloned().collect()).await;
    learn_contents(scn, &st);
    let room_set: HashSet<Uid> = scn.names.rooms.values().cloned().collect();
    let observed: Vec<Vec<u8>> = st.logs.iter().filter(|l| room_set.contains(&l.room)).flat_map(|l| [l.dh.clone(), l.hh.clone()]).flatten().collect();
    close_terms(scn, &observed);
    let my_rooms: HashSet<Uid> = scn.names.rooms.values().cloned().collect();
    let my_rows: HashSet<Uid> = scn.names.rows.values().cloned().collect();
    let mut nodes = Vec::new();
    for n in &st.nodes {
        let in_room = n.room.map(|r| my_rooms.contains(&r)).unwrap_or(false);
        if !in_room && !my_rows.contains(&n.id) {
            continue;
        }
        nodes.push(json!({
            "row": scn.names.row(&n.id),
            "ent": world.long.get(&n.entity).cloned().unwrap_or(n.entity.clone()),
            "room": n.room.map(|r| scn.names.room(&r)).unwrap_or("none".to_string()),
            "m": abs_date(n.mdate), "c": abs_date(n.cdate), "s": sig_int(&n.sig),
            "au": scn.names.key(&n.vkey),
            "text": jstr(&n.json, "32").as_str().map(|s| s.to_string()).unwrap_or_else(|| first_string(&n.json)),
            "slot": n.rowid,
        }));
    }
    let mut edges = Vec::new();
    for e in &st.edges {
        if !my_rows.contains(&e.src) {
            continue;
        }
        edges.push(json!({"src": scn.names.row(&e.src), "dst": scn.names.row(&e.dest), "c": abs_date(e.cdate),
            "s": sig_int(&e.sig), "au": scn.names.key(&e.vkey)}));
    }
    let mut ntombs = Vec::new();
    for t in &st.ntombs {
        if !my_rooms.contains(&t.room) && !my_rows.contains(&t.id) {
            continue;
        }
        ntombs.push(json!({"row": scn.names.row(&t.id), "room": scn.names.room(&t.room),
            "ent": world.long.get(&t.entity).cloned().unwrap_or(t.entity.clone()),
            "m": abs_date(t.mdate), "d": abs_date(t.ddate), "s": sig_int(&t.sig), "au": scn.names.key(&t.vkey)}));
    }
    let mut etombs = Vec::new();
    for t in &st.etombs {
        if !my_rooms.contains(&t.room) && !my_rows.contains(&t.src) {
            continue;
        }
        etombs.push(json!({"src": scn.names.row(&t.src), "dst": scn.names.row(&t.dest), "room": scn.names.room(&t.room),
            "ent": world.long.get(&t.src_entity).cloned().unwrap_or(t.src_entity.clone()),
            "c": abs_date(t.cdate), "d": abs_date(t.ddate), "s": sig_int(&t.sig)}));
    }
    let mut log = Vec::new();
    for l in &st.logs {
        if !my_rooms.contains(&l.room) {
            continue;
        }
        let day = (l.date - BASE_DAY) / DAY_MS;
        log.push(json!({"room": scn.names.room(&l.room), "ent": world.long.get(&l.entity).cloned().unwrap_or(l.entity.clone()),
            "day": day, "n": l.n, "dh": hash_term(scn, &l.dh), "hh": hash_term(scn, &l.hh), "dirty": l.dirty}));
    }
    json!({"nodes": nodes, "edges": edges, "ntombs": ntombs, "etombs": etombs, "log": log})
}

fn first_string(json: &Option<String>) -> String {
    if let Some(s) = json {
        if let Ok(Value::Object(m)) = serde_json::from_str::<Value>(s) {
            let mut keys: Vec<&String> = m.keys().collect();
            keys.sort();
            for k in keys {
                if let Some(x) = m[k].as_str() {
                    return x.to_string();
                }
            }
        }
    }
    "".to_string()
}

/// the room definitions a peer stores, as abstract admin / group / user / right entries
pub async fn project_defs(world: &World, scn: &Scn, pname: &str) -> Value {
    let peer = &world.peers[pname];
    // one query per room of the scenario (a query over every room of a long-lived instance is slow)
    let mut found: Vec<Value> = Vec::new();
    for (_, rid) in scn.names.rooms.iter() {
        let q = "query { sys.Room(id=$rid) { id mdate admin { verif_key enabled mdate } authorisations(nullable(rights, users, user_admin)) { id name mdate rights { entity mutate_self mutate_all mdate } users { verif_key enabled mdate } user_admin { verif_key enabled mdate } } } }";
        match peer.db.query(q, params(&[("rid", uid_encode(rid))])).await {
            Ok(r) => {
                if let Ok(v) = serde_json::from_str::<Value>(&r) {
                    if let Some(a) = v["sys.Room"].as_array() {
                        found.extend(a.iter().cloned());
                    }
                }
            }
            Err(e) => return json!({"ERR": e.to_string()}),
        }
    }
    let v = json!({"sys.Room": found});
    let mut out = Map::new();
    let users = |a: &Value| -> Vec<Value> {
        let mut r = Vec::new();
        if let Some(arr) = a.as_array() {
            for u in arr {
                let k = vh::security::base64_decode(u["verif_key"].as_str().unwrap_or("").as_bytes()).unwrap_or_default();
                r.push(json!({"u": scn.names.key(&k), "d": abs_date(u["mdate"].as_i64().unwrap_or(0)), "en": u["enabled"].as_bool().unwrap_or(false)}));
            }
        }
        // canonical order: the value of a definition does not depend on the order in which the rows are returned
        r.sort_by_key(|x| (x["d"].as_i64().unwrap_or(0), x["u"].as_str().unwrap_or("").to_string(), x["en"].as_bool().unwrap_or(false)));
        r
    };
    if let Some(rooms) = v["sys.Room"].as_array() {
        for r in rooms {
            let id = match r["id"].as_str().and_then(|s| vh::security::uid_decode(s).ok()) {
                Some(i) => i,
                None => continue,
            };
            let name = match scn.names.room_names.get(&id) {
                Some(n) => n.clone(),
                None => continue,
            };
            let mut groups = Vec::new();
            if let Some(auths) = r["authorisations"].as_array() {
                for a in auths {
                    let mut rights = Vec::new();
                    if let Some(rs) = a["rights"].as_array() {
                        for x in rs {
                            rights.push(json!({"ent": x["entity"].as_str().unwrap_or("").strip_prefix("v.").unwrap_or(x["entity"].as_str().unwrap_or("")),
                                "d": abs_date(x["mdate"].as_i64().unwrap_or(0)), "self": x["mutate_self"].as_bool().unwrap_or(false), "all": x["mutate_all"].as_bool().unwrap_or(false)}));
                        }
                    }
                    rights.sort_by_key(|r| (r["d"].as_i64().unwrap_or(0), r["ent"].as_str().unwrap_or("").to_string()));
                    groups.push(json!({"g": a["name"].as_str().unwrap_or(""), "rights": rights, "users": users(&a["users"]), "uadmins": users(&a["user_admin"])}));
                }
            }
            groups.sort_by_key(|g| g["g"].as_str().unwrap_or("").to_string());
            out.insert(name, json!({"admins": users(&r["admin"]), "groups": groups}));
        }
    }
    Value::Object(out)
}

pub async fn project_all(world: &World, scn: &mut Scn) -> Value {
    let mut m = Map::new();
    for p in scn.peers.clone() {
        m.insert(p.clone(), project(world, scn, &p).await);
    }
    Value::Object(m)
}

/// every event emitted so far has reached the subscriber: the db actor, the writer and the event service are
/// each asked something after the change, in the order in which an event travels through them
pub async fn drain_events(world: &mut World, scn: &Scn) -> Value {
    let mut m = Map::new();
    for pn in scn.peers.clone() {
        {
            let p = &world.peers[&pn];
            p.write_barrier().await;
            let _ = p.db.query("query { sys.Room(first 1) { id } }", None).await;
            let _ = p.services.events.subcribe().await;
        }
        let mut evs = Vec::new();
        let rx = world.rx.get_mut(&pn).unwrap();
        loop {
            match rx.try_recv() {
                Ok(discret::Event::DataChanged(dm)) => {
                    for (room, ents) in &dm.rooms {
                        let rn = vh::security::uid_decode(room).map(|u| scn.names.room(&u)).unwrap_or("?".to_string());
                        if rn.starts_with('?') {
                            continue;
                        }
                        for (ent, dates) in ents {
                            for d in dates {
                                evs.push(json!({"k":"data","room":rn,"ent":ent.strip_prefix("v.").unwrap_or(ent),"day":(d - BASE_DAY).div_euclid(DAY_MS)}));
                            }
                        }
                    }
                }
                Ok(discret::Event::RoomModified(room)) => {
                    let rn = scn.names.room(&room.id);
                    if !rn.starts_with('?') {
                        let mut users: Vec<String> = room.users().iter().map(|k| scn.names.key(k)).collect();
                        users.sort();
                        evs.push(json!({"k":"room","room":rn,"users":users}));
                    }
                }
                Ok(_) => {}
                Err(tokio::sync::broadcast::error::TryRecvError::Lagged(n)) => evs.push(json!({"k":"lagged","n":n})),
                Err(_) => break,
            }
        }
        m.insert(pn, json!(evs));
    }
    Value::Object(m)
}

pub async fn offer(world: &World, scn: &Scn, from: &str, to: &str, room_name: &str) -> Result<Value, String> {
    use vh::database::edge::{Edge, EdgeDeletionEntry};
    use vh::database::node::{Node, NodeDeletionEntry, NodeIdentifier};
    let room = scn.names.rooms.get(room_name).cloned().ok_or("unknown room")?;
    let src = &world.peers[from];
    let dst = &world.peers[to];
    let mut sigfail = Vec::new();
    // 1. the room definition
    if let Some(rn) = src.db.get_room_node(room).await.map_err(|e| e.to_string())? {
        // as on the wire: the local row identifiers of the sender are not transmitted
        let bytes = vh::bincode::serialize(&rn).map_err(|e| e.to_string())?;
        let rn: vh::database::room_node::RoomNode = vh::bincode::deserialize(&bytes).map_err(|e| e.to_string())?;
        match dst.services.signature_verification.verify_room_node(rn).await {
            Ok(rn) => {
                if let Err(e) = dst.db.add_room_node(rn).await {
                    return Err(format!("room definition refused: {e}"));
                }
            }
            Err(e) => return Err(format!("room definition signature: {e}")),
        }
    } else {
        return Err("room unknown on the offering instance".to_string());
    }
    let st = read_store(src, world.app_shorts(), vec![room], vec![]).await;
    // 2. deletion records (references first, as the synchronisation does)
    let etombs: Vec<EdgeDeletionEntry> = st.etombs.iter().filter(|t| t.room == room).map(|t| EdgeDeletionEntry {
        room_id: t.room, src: t.src, src_entity: t.src_entity.clone(), dest: t.dest, label: t.label.clone(), cdate: t.cdate,
        deletion_date: t.ddate, verifying_key: t.vkey.clone(), signature: t.sig.clone(), entity_name: None }).collect();
    if !etombs.is_empty() {
        match dst.services.signature_verification.verify_edge_log(etombs).await {
            Ok(v) => dst.db.delete_edges(v).await.map_err(|e| e.to_string())?,
            Err(e) => sigfail.push(format!("etombs {e}")),
        }
    }
    let ntombs: Vec<NodeDeletionEntry> = st.ntombs.iter().filter(|t| t.room == room).map(|t| NodeDeletionEntry {
        room_id: t.room, id: t.id, entity: t.entity.clone(), mdate: t.mdate, deletion_date: t.ddate,
        verifying_key: t.vkey.clone(), signature: t.sig.clone(), entity_name: None }).collect();
    if !ntombs.is_empty() {
        match dst.services.signature_verification.verify_node_log(ntombs).await {
            Ok(v) => dst.db.delete_nodes(v).await.map_err(|e| e.to_string())?,
            Err(e) => sigfail.push(format!("ntombs {e}")),
        }
    }
    // 3. rows
    let ids: Vec<Uid> = st.nodes.iter().filter(|n| n.room == Some(room)).map(|n| n.id).collect();
    let mut rejected_nodes = Vec::new();
    let mut rejected_edges = Vec::new();
    if !ids.is_empty() {
        let mut set = HashSet::new();
        for n in st.nodes.iter().filter(|n| n.room == Some(room)) {
            set.insert(NodeIdentifier { id: n.id, mdate: n.mdate, signature: n.sig.clone() });
        }
        let filtered = dst.db.filter_existing_node(room, set).await.map_err(|e| e.to_string())?;
        let mut wanted: HashMap<Uid, vh::database::node::NodeToInsert> = HashMap::new();
        for f in filtered {
            wanted.insert(f.id, f);
        }
        let want_ids: Vec<Uid> = wanted.keys().cloned().collect();
        let mut nodes: Vec<Node> = Vec::new();
        let mut rcv = src.db.get_nodes(room, want_ids.clone()).await;
        while let Some(r) = rcv.recv().await {
            nodes.extend(r.map_err(|e| e.to_string())?);
        }
        match dst.services.signature_verification.verify_nodes(nodes).await {
            Ok(nodes) => {
                let mut ntis = Vec::new();
                for mut n in nodes {
                    if let Some(mut nti) = wanted.remove(&n.id) {
                        n._local_id = nti.old_local_id;
                        nti.node = Some(n);
                        ntis.push(nti);
                    }
                }
                let rej = dst.db.add_nodes(room, ntis).await.map_err(|e| e.to_string())?;
                for r in rej {
                    rejected_nodes.push(scn.names.row(&r));
                }
            }
            Err(e) => sigfail.push(format!("nodes {e}")),
        }
        // 4. references of every row of the room
        let mut edges: Vec<Edge> = Vec::new();
        let mut rcv = src.db.get_edges(room, ids.iter().map(|i| (*i, 0)).collect()).await;
        while let Some(r) = rcv.recv().await {
            edges.extend(r.map_err(|e| e.to_string())?);
        }
        if !edges.is_empty() {
            match dst.services.signature_verification.verify_edges(edges).await {
                Ok(edges) => {
                    let rej = dst.db.add_edges(room, edges).await.map_err(|e| e.to_string())?;
                    for r in rej {
                        rejected_edges.push(scn.names.row(&r));
                    }
                }
                Err(e) => sigfail.push(format!("edges {e}")),
            }
        }
    }
    dst.recompute().await;
    rejected_nodes.sort();
    rejected_edges.sort();
    Ok(json!({"rejected_nodes": rejected_nodes, "rejected_edges": rejected_edges, "sigfail": sigfail}))
}

/// decisions of a Room object (the real decision functions), as the list of questions answered yes
fn matrix_of(room: &vh::database::room::Room, scn: &Scn, dates: &[i64]) -> Value {
    use vh::database::room::RightType;
    let mut yes: Vec<Value> = Vec::new();
    let mut users: Vec<(&String, &Vec<u8>)> = scn.user_key.iter().collect();
    users.sort();
    for (u, k) in users {
        for d in dates {
            let t = ts(d / 1000, d % 1000);
            if room.is_admin(k, t) {
                yes.push(json!([u, "#admin", d, "is"]));
            }
            if room.is_user_valid_at(k, t) {
                yes.push(json!([u, "#member", d, "is"]));
            }
            if room.authorisations.values().any(|a| a.can_admin_users(k, t)) {
                yes.push(json!([u, "#uadmin", d, "is"]));
            }
            for e in ["A", "B"] {
                if room.can(k, &format!("v.{e}"), t, &RightType::MutateSelf) {
                    yes.push(json!([u, e, d, "self"]));
                }
                if room.can(k, &format!("v.{e}"), t, &RightType::MutateAll) {
                    yes.push(json!([u, e, d, "all"]));
                }
            }
        }
    }
    json!({"yes": yes})
}

/// the serving side of one connection (the real InboundQueryService loop), driven by the harness as the remote end
pub struct ServeConn {
    q_send: tokio::sync::mpsc::Sender<vh::synchronisation::QueryProtocol>,
    a_recv: tokio::sync::mpsc::Receiver<vh::synchronisation::Answer>,
    inbound: vh::synchronisation::peer_outbound_service::InboundQueryService,
    remote_key: std::sync::Arc<tokio::sync::Mutex<Vec<u8>>>,
    events: tokio::sync::mpsc::Sender<vh::synchronisation::RemoteEvent>,
    _events_rx: tokio::sync::mpsc::Receiver<vh::synchronisation::RemoteEvent>,
    next_id: u64,
}

/// one batch of requests of an (authenticated or not) remote peer on a connection of instance `server`;
/// before the requests, the room definition changes that happened on the server since the last call are given
/// to the connection as the local events the library would broadcast
pub async fn serve(world: &mut World, scn: &mut Scn, step: &Value) -> Result<Value, String> {
    use vh::database::daily_log::{DailyLog, RoomDefinitionLog};
    use vh::database::edge::{Edge, EdgeDeletionEntry};
    use vh::database::node::{Node, NodeDeletionEntry, NodeIdentifier};
    use vh::database::room_node::RoomNode;
    use vh::synchronisation::peer_inbound_service::LocalPeerService;
    use vh::synchronisation::peer_outbound_service::{InboundQueryService, RemotePeerHandle};
    use vh::synchronisation::{LocalEvent, Query, QueryProtocol};
    let sname = s(step, "server");
    let cid = s(step, "conn");
    let as_user = s(step, "as");
    // room-modified events of the server since the last call -> local events of the connection
    {
        let p = &world.peers[&sname];
        p.write_barrier().await;
        let _ = p.services.events.subcribe().await;
    }
    let mut changed: Vec<std::sync::Arc<vh::database::room::Room>> = Vec::new();
    {
        // every accepted room creation or update of the server is announced, asynchronously: for each room touched since the last
        // call, wait until the announced room decides like the definition the server stores (nothing to wait for when the update
        // changed nothing)
        let _ = scn.pending_room_events.remove(&sname);
        let touched: Vec<Uid> = scn.touched_rooms.remove(&sname).map(|h| h.into_iter().collect()).unwrap_or_default();
        if !touched.is_empty() {
            let now = vh::date_utils::now();
            let stored_rooms = {
                let p = &world.peers[&sname];
                let mut ra = vh::database::authorisation_service::RoomAuthorisations { signing_key: signing_key_of(&p.user), rooms: HashMap::new(), max_node_size: 1 << 20 };
                if let Ok(jsn) = p.db.query(vh::database::authorisation_service::RoomAuthorisations::LOAD_QUERY, None).await {
                    let _ = ra.load_json(&jsn);
                }
                ra
            };
            for r in touched {
                if let Some(sr) = stored_rooms.rooms.get(&r) {
                    let want = matrix_of(sr, scn, &[now]);
                    let _ = live_matrix(world, scn, &sname, r, &[now], Some(&want)).await;
                }
            }
        }
        absorb_room_events(world, scn);
        changed.append(scn.room_queue.entry(sname.clone()).or_default());
    }
    let server = &world.peers[&sname];
    if !scn.conns.contains_key(&cid) {
        let (q_send, q_recv) = tokio::sync::mpsc::channel::<QueryProtocol>(10);
        let (a_send, a_recv) = tokio::sync::mpsc::channel::<vh::synchronisation::Answer>(1000);
        let handle = RemotePeerHandle { allowed_room: HashSet::new(), db: server.db.clone(), verifying_key: server.vkey.clone(), reply: a_send };
        let key = if as_user.is_empty() { vec![] } else { scn.user_key.get(&as_user).cloned().unwrap_or_default() };
        let remote_key = std::sync::Arc::new(tokio::sync::Mutex::new(key));
        let ready = std::sync::Arc::new(std::sync::atomic::AtomicBool::new(true));
        let (dummy_send, mut dummy_recv) = tokio::sync::mpsc::channel::<vh::peer_connection_service::PeerConnectionMessage>(32);
        tokio::spawn(async move { while dummy_recv.recv().await.is_some() {} });
        let inbound = InboundQueryService::start(
            vh::security::HardwareFingerprint { id: Default::default(), name: "dv".to_string() },
            [7u8; 32], Default::default(), handle, q_recv,
            vh::peer_connection_service::PeerConnectionService { sender: dummy_send }, remote_key.clone(), ready);
        let (events, _events_rx) = tokio::sync::mpsc::channel::<vh::synchronisation::RemoteEvent>(1000);
        scn.conns.insert(cid.clone(), ServeConn { q_send, a_recv, inbound, remote_key, events, _events_rx, next_id: 1 });
    }
    let conn = scn.conns.get_mut(&cid).unwrap();
    // authentication state of the connection can change (a key is proven later)
    {
        let mut k = conn.remote_key.lock().await;
        *k = if as_user.is_empty() { vec![] } else { scn.user_key.get(&as_user).cloned().unwrap_or_default() };
    }
    let scenario_rooms: HashSet<Uid> = scn.names.rooms.values().cloned().collect();
    for r in changed {
        if scenario_rooms.contains(&r.id) {
            let _ = LocalPeerService::verif_process_local_event(LocalEvent::RoomDefinitionChanged(r), &conn.remote_key, &conn.events,
                &HashSet::new(), &conn.inbound).await;
        }
    }
    for _ in 0..4 {
        tokio::task::yield_now().await;
    }
    let row_room: HashMap<Uid, Option<Uid>> = {
        let st = read_store(server, world.app_shorts(), scn.names.rooms.values().cloned().collect(), scn.names.rows.values().cloned().collect()).await;
        st.nodes.iter().map(|n| (n.id, n.room)).collect()
    };
    let mut answers = Vec::new();
    for rq in arr(step, "reqs") {
        let q = s(rq, "q");
        let room = rq.get("room").and_then(|r| r.as_str()).and_then(|r| scn.names.rooms.get(r)).cloned().unwrap_or_default();
        let rows: Vec<Uid> = rq.get("rows").and_then(|r| r.as_array()).map(|a| a.iter().filter_map(|x| scn.names.rows.get(x.as_str().unwrap_or("")).cloned()).collect()).unwrap_or_default();
        let ent_short = world.short.get("v.A").cloned().unwrap_or_default();
        let day0 = ts(0, 0);
        let query = match q.as_str() {
            "RoomList" => Query::RoomList,
            "RoomDefinition" => Query::RoomDefinition(room),
            "RoomNode" => Query::RoomNode(room),
            "RoomLog" => Query::RoomLog(room),
            "RoomLogAt" => Query::RoomLogAt(room, day0),
            "EdgeDeletionLog" => Query::EdgeDeletionLog(room, ent_short.clone(), day0),
            "NodeDeletionLog" => Query::NodeDeletionLog(room, ent_short.clone(), day0),
            "RoomDailyNodes" => Query::RoomDailyNodes(room, ent_short.clone(), day0),
            "Nodes" => Query::Nodes(room, rows.clone()),
            "Edges" => Query::Edges(room, rows.iter().map(|r| (*r, 0)).collect()),
            "PeersForRoom" => Query::PeersForRoom(room),
            "HardwareFingerprint" => Query::HardwareFingerprint(),
            other => return Err(format!("unknown query {other}")),
        };
        let id = conn.next_id;
        conn.next_id += 1;
        conn.q_send.send(QueryProtocol { id, query }).await.map_err(|e| e.to_string())?;
        // a marker request that is always answered tells that the previous one has been handled entirely
        let marker = conn.next_id;
        conn.next_id += 1;
        conn.q_send.send(QueryProtocol { id: marker, query: Query::RoomNode([0xEE; 16]) }).await.map_err(|e| e.to_string())?;
        let mut served_rooms: Vec<String> = Vec::new();
        let mut served_rows: Vec<String> = Vec::new();
        let mut success = Vec::new();
        loop {
            let a = match tokio::time::timeout(std::time::Duration::from_secs(20), conn.a_recv.recv()).await {
                Ok(Some(a)) => a,
                _ => return Err("no answer to the marker request".to_string()),
            };
            if a.id == marker {
                break;
            }
            if a.id != id {
                continue;
            }
            success.push(a.success);
            if !a.success {
                continue;
            }
            let b = &a.serialized;
            let req_room = scn.names.room(&room);
            let mut room_of_row = |u: &Uid, served_rows: &mut Vec<String>, served_rooms: &mut Vec<String>| {
                served_rows.push(scn.names.row(u));
                if let Some(Some(r)) = row_room.get(u) {
                    served_rooms.push(scn.names.room(r));
                }
            };
            match q.as_str() {
                "RoomList" => {
                    if let Ok(v) = vh::bincode::deserialize::<std::collections::VecDeque<Uid>>(b) {
                        for r in v {
                            if scenario_rooms.contains(&r) {
                                served_rooms.push(scn.names.room(&r));
                            }
                        }
                    }
                }
                "RoomDefinition" => {
                    if let Ok(Some(_)) = vh::bincode::deserialize::<Option<RoomDefinitionLog>>(b) {
                        served_rooms.push(req_room.clone());
                    }
                }
                "RoomNode" => {
                    if let Ok(Some(rn)) = vh::bincode::deserialize::<Option<RoomNode>>(b) {
                        served_rooms.push(scn.names.room(&rn.node.id));
                    }
                }
                "RoomLog" | "RoomLogAt" => {
                    if let Ok(v) = vh::bincode::deserialize::<Vec<DailyLog>>(b) {
                        for l in v {
                            served_rooms.push(scn.names.room(&l.room_id));
                        }
                    }
                }
                "EdgeDeletionLog" => {
                    if let Ok(v) = vh::bincode::deserialize::<Vec<EdgeDeletionEntry>>(b) {
                        for l in v {
                            served_rooms.push(scn.names.room(&l.room_id));
                        }
                    }
                }
                "NodeDeletionLog" => {
                    if let Ok(v) = vh::bincode::deserialize::<Vec<NodeDeletionEntry>>(b) {
                        for l in v {
                            served_rooms.push(scn.names.room(&l.room_id));
                            served_rows.push(scn.names.row(&l.id));
                        }
                    }
                }
                "RoomDailyNodes" => {
                    if let Ok(v) = vh::bincode::deserialize::<HashSet<NodeIdentifier>>(b) {
                        for l in v {
                            room_of_row(&l.id, &mut served_rows, &mut served_rooms);
                        }
                    }
                }
                "Nodes" => {
                    if let Ok(v) = vh::bincode::deserialize::<Vec<Node>>(b) {
                        for l in v {
                            served_rows.push(scn.names.row(&l.id));
                            if let Some(r) = l.room_id {
                                served_rooms.push(scn.names.room(&r));
                            }
                        }
                    }
                }
                "Edges" => {
                    if let Ok(v) = vh::bincode::deserialize::<Vec<Edge>>(b) {
                        for l in v {
                            room_of_row(&l.src, &mut served_rows, &mut served_rooms);
                        }
                    }
                }
                "PeersForRoom" => {
                    if let Ok(v) = vh::bincode::deserialize::<Vec<Node>>(b) {
                        if !v.is_empty() {
                            served_rooms.push(req_room.clone());
                        }
                    }
                }
                "HardwareFingerprint" => {
                    served_rooms.push("#fingerprint".to_string());
                }
                _ => {}
            }
        }
        served_rooms.sort();
        served_rooms.dedup();
        served_rows.sort();
        served_rows.dedup();
        let mut a = rq.clone();
        a["rooms"] = json!(served_rooms);
        a["served_rows"] = json!(served_rows);
        a["success"] = json!(success);
        answers.push(a);
    }
    Ok(json!(answers))
}

/// A candidate room definition assembled from the honest export of `from` plus one adversarial change signed
/// by `by`, offered to `to`; reports whether it was accepted and the decisions of the room `to` ends with
pub async fn forge(world: &mut World, scn: &mut Scn, step: &Value) -> Result<Value, String> {
    use vh::database::authorisation_service::RoomAuthorisations;
    use vh::database::edge::Edge;
    use vh::database::node::Node;
    use vh::database::room_node::{EntityRightNode, RoomNode, UserNode};
    use vh::database::system_entities as se;
    let room = scn.names.rooms.get(&s(step, "room")).cloned().ok_or("unknown room")?;
    let dates: Vec<i64> = arr(step, "dates").iter().map(|d| d.as_i64().unwrap()).collect();
    let kind = s(step, "kind");
    let by = s(step, "by");
    let key = signing_key_of(&by);
    let by_key = scn.user_key.get(&by).cloned().ok_or("unknown attacker")?;
    let now = vh::date_utils::now();
    let src = &world.peers[&s(step, "from")];
    let rn = src.db.get_room_node(room).await.map_err(|e| e.to_string())?.ok_or("no export")?;
    let bytes = vh::bincode::serialize(&rn).map_err(|e| e.to_string())?;
    let mut rn: RoomNode = vh::bincode::deserialize(&bytes).map_err(|e| e.to_string())?;
    let group = step.get("g").and_then(|g| g.as_str()).unwrap_or("g1").to_string();
    let gid = scn.auth_ids.get(&(s(step, "room"), group)).cloned().ok_or("unknown group")?;
    let user_node = |k: &Vec<u8>, enabled: bool| -> Result<UserNode, String> {
        let json = format!("{{\"{}\":\"{}\",\"{}\":{}}}", se::USER_VERIFYING_KEY_SHORT, vh::security::base64_encode(k), se::USER_ENABLED_SHORT, enabled);
        let mut n = Node { id: vh::security::new_uid(), room_id: None, cdate: now, mdate: now, _entity: se::USER_AUTH_ENT_SHORT.to_string(),
            _json: Some(json), _binary: None, verifying_key: vec![], _signature: vec![], _local_id: None };
        n.sign(&key).map_err(|e| e.to_string())?;
        Ok(UserNode { node: n })
    };
    let edge = |src: Uid, src_ent: &str, label: &str, dest: Uid, cdate: i64| -> Result<Edge, String> {
        let mut e = Edge { src, src_entity: src_ent.to_string(), label: label.to_string(), dest, cdate, verifying_key: vec![], signature: vec![] };
        e.sign(&key).map_err(|e| e.to_string())?;
        Ok(e)
    };
    let mut applicable = true;
    match kind.as_str() {
        "honest" => {}
        "user_to_admin" => {
            // an entry the admin signed for the users list of a group, re-placed in the admin list by a reference the attacker signs
            let found = rn.auth_nodes.iter().flat_map(|a| a.user_nodes.iter()).find(|u| {
                u.node._json.as_ref().map(|j| j.contains(&vh::security::base64_encode(&by_key)) && j.contains("true")).unwrap_or(false)
            }).cloned();
            match found {
                Some(u) => {
                    let e = edge(rn.node.id, se::ROOM_ENT_SHORT, se::ROOM_ADMIN_FIELD_SHORT, u.node.id, u.node.mdate)?;
                    rn.admin_edges.push(e);
                    rn.admin_nodes.push(u);
                }
                None => applicable = false,
            }
        }
        "self_admin" => {
            let u = user_node(&by_key, true)?;
            rn.admin_edges.push(edge(rn.node.id, se::ROOM_ENT_SHORT, se::ROOM_ADMIN_FIELD_SHORT, u.node.id, now)?);
            rn.admin_nodes.push(u);
        }
        "self_right" => {
            let json = format!("{{\"{}\":\"*\",\"{}\":true,\"{}\":true}}", se::RIGHT_ENTITY_SHORT, se::RIGHT_MUTATE_SELF_SHORT, se::RIGHT_MUTATE_ALL_SHORT);
            let mut n = Node { id: vh::security::new_uid(), room_id: None, cdate: now, mdate: now, _entity: se::ENTITY_RIGHT_ENT_SHORT.to_string(),
                _json: Some(json), _binary: None, verifying_key: vec![], _signature: vec![], _local_id: None };
            n.sign(&key).map_err(|e| e.to_string())?;
            match rn.auth_nodes.iter_mut().find(|a| a.node.id == gid) {
                Some(a) => {
                    a.right_edges.push(edge(a.node.id, se::AUTHORISATION_ENT_SHORT, se::AUTH_RIGHTS_FIELD_SHORT, n.id, now)?);
                    a.right_nodes.push(EntityRightNode { node: n });
                }
                None => applicable = false,
            }
        }
        "self_user" | "add_user" => {
            // the attacker adds a user entry (itself, or the user named by "user") to the group, signed with its own key
            let target = if kind == "self_user" { by_key.clone() } else { scn.user_key.get(&s(step, "user")).cloned().ok_or("unknown user")? };
            let u = user_node(&target, true)?;
            match rn.auth_nodes.iter_mut().find(|a| a.node.id == gid) {
                Some(a) => {
                    a.user_edges.push(edge(a.node.id, se::AUTHORISATION_ENT_SHORT, se::AUTH_USER_FIELD_SHORT, u.node.id, now)?);
                    a.user_nodes.push(u);
                }
                None => applicable = false,
            }
        }
        "self_uadmin" => {
            let u = user_node(&by_key, true)?;
            match rn.auth_nodes.iter_mut().find(|a| a.node.id == gid) {
                Some(a) => {
                    a.user_admin_edges.push(edge(a.node.id, se::AUTHORISATION_ENT_SHORT, se::AUTH_USER_ADMIN_FIELD_SHORT, u.node.id, now)?);
                    a.user_admin_nodes.push(u);
                }
                None => applicable = false,
            }
        }
        "drop_entry" => {
            // omission of the newest user entry of the group
            match rn.auth_nodes.iter_mut().find(|a| a.node.id == gid) {
                Some(a) if !a.user_nodes.is_empty() => {
                    let (idx, _) = a.user_nodes.iter().enumerate().max_by_key(|(_, u)| u.node.mdate).unwrap();
                    let gone = a.user_nodes.remove(idx);
                    a.user_edges.retain(|e| e.dest != gone.node.id);
                }
                _ => applicable = false,
            }
        }
        "alter_entry" => {
            // an existing user entry re-written (enabled flag flipped) and re-signed by the attacker under the same id
            match rn.auth_nodes.iter_mut().find(|a| a.node.id == gid) {
                Some(a) if !a.user_nodes.is_empty() => {
                    let u = &mut a.user_nodes[0];
                    let j = u.node._json.clone().unwrap_or_default();
                    u.node._json = Some(if j.contains("true") { j.replace("true", "false") } else { j.replace("false", "true") });
                    u.node.sign(&key).map_err(|e| e.to_string())?;
                }
                _ => applicable = false,
            }
        }
        other => return Err(format!("unknown forge kind {other}")),
    }
    let dst = &world.peers[&s(step, "to")];
    let accepted = if !applicable {
        json!("n/a")
    } else {
        match dst.services.signature_verification.verify_room_node(rn).await {
            Ok(rn) => match dst.db.add_room_node(rn).await {
                Ok(_) => json!("accepted"),
                Err(e) => json!(format!("refused: {e}").chars().take(90).collect::<String>()),
            },
            Err(e) => json!(format!("refused: signature {e}").chars().take(90).collect::<String>()),
        }
    };
    dst.write_barrier().await;
    // decisions of the room the target now stores (start-up path) and holds in memory (its last room-modified event)
    let stored = match dst.db.query(RoomAuthorisations::LOAD_QUERY, None).await {
        Ok(jsn) => {
            let mut ra = RoomAuthorisations { signing_key: signing_key_of(&dst.user), rooms: HashMap::new(), max_node_size: 1 << 20 };
            match ra.load_json(&jsn) {
                Ok(_) => match ra.rooms.get(&room) { Some(r) => matrix_of(r, scn, &dates), None => json!({"err": "room not stored"}) },
                Err(e) => json!({"err": e.to_string()}),
            }
        }
        Err(e) => json!({"err": e.to_string()}),
    };
    let tname = s(step, "to");
    let _ = dst.services.events.subcribe().await;
    let live = live_matrix(world, scn, &tname, room, &dates, Some(&stored)).await;
    Ok(json!({"verdict": accepted, "stored": stored, "live": live}))
}

/// reads what the peers have announced so far (the channels are bounded: they are read after every step, not only when a
/// step needs the announcements); the last announced version of each room is kept, and every announcement is queued for `serve`
pub fn absorb_room_events(world: &mut World, scn: &mut Scn) {
    let names: Vec<String> = world.rx.keys().cloned().collect();
    for pn in names {
        let rx = world.rx.get_mut(&pn).unwrap();
        loop {
            match rx.try_recv() {
                Ok(discret::Event::RoomModified(r)) => {
                    scn.live_rooms.insert((pn.clone(), r.id), r.clone());
                    scn.room_queue.entry(pn.clone()).or_default().push(r);
                }
                Ok(_) => {}
                Err(tokio::sync::broadcast::error::TryRecvError::Lagged(_)) => {}
                Err(_) => break,
            }
        }
    }
}

/// decisions of the room carried by the last room-modified event of a peer.  Announcements are asynchronous: when `want`
/// (the decisions of the stored definition) is given, events are awaited until the announced room decides the same, one
/// few seconds at most (only a loaded machine needs them); without it, until some announcement of the room has been seen.
async fn live_matrix(world: &mut World, scn: &mut Scn, pname: &str, room: Uid, dates: &[i64], want: Option<&Value>) -> Value {
    let mut last = json!({"err": "no room-modified event"});
    for _ in 0..3000 {
        absorb_room_events(world, scn);
        let live = scn.live_rooms.get(&(pname.to_string(), room)).cloned();
        if let Some(r) = &live {
            last = matrix_of(r, scn, dates);
        }
        let done = match want {
            Some(w) => w.get("err").is_some() || *w == last,
            None => live.is_some(),
        };
        if done {
            break;
        }
        tokio::time::sleep(std::time::Duration::from_millis(5)).await;
    }
    last
}

/// the same room obtained through every construction path
pub async fn room_paths(world: &mut World, scn: &mut Scn, step: &Value) -> Result<Value, String> {
    use vh::database::authorisation_service::RoomAuthorisations;
    use vh::database::room_node::RoomNode;
    let pname = s(step, "p");
    let room = scn.names.rooms.get(&s(step, "room")).cloned().ok_or("unknown room")?;
    let dates: Vec<i64> = arr(step, "dates").iter().map(|d| d.as_i64().unwrap()).collect();
    let mut out = Map::new();
    // a. live: the room carried by the last room-modified event of the instance
    {
        let p = &world.peers[&pname];
        p.write_barrier().await;
        let _ = p.services.events.subcribe().await;
    }
    let p = &world.peers[&pname];
    // b. reload: the start-up query and load_json
    let reload = match p.db.query(RoomAuthorisations::LOAD_QUERY, None).await {
        Ok(jsn) => {
            let mut ra = RoomAuthorisations { signing_key: signing_key_of(&p.user), rooms: HashMap::new(), max_node_size: 1 << 20 };
            match ra.load_json(&jsn) {
                Ok(_) => match ra.rooms.get(&room) { Some(r) => matrix_of(r, scn, &dates), None => json!({"err": "room not loaded"}) },
                Err(e) => json!({"err": e.to_string()}),
            }
        }
        Err(e) => json!({"err": e.to_string()}),
    };
    let live = live_matrix(world, scn, &pname, room, &dates, Some(&reload)).await;
    out.insert("live".to_string(), live);
    out.insert("reload".to_string(), reload);
    let p = &world.peers[&pname];
    // c. restart on the same data folder
    let restart = match Peer::start_in(&format!("{pname}-again"), &p.user, MODEL, &world.config, p.folder.clone()).await {
        Ok(_) => json!("ok"),
        Err(e) => json!(format!("err: {e}").chars().take(80).collect::<String>()),
    };
    out.insert("restart".to_string(), restart);
    // d. export and parse
    let exported: Option<RoomNode> = match p.db.get_room_node(room).await {
        Ok(Some(rn)) => {
            let bytes = vh::bincode::serialize(&rn).map_err(|e| e.to_string())?;
            Some(vh::bincode::deserialize(&bytes).map_err(|e| e.to_string())?)
        }
        _ => None,
    };
    out.insert("export".to_string(), match &exported {
        Some(rn) => match rn.parse() { Ok(r) => matrix_of(&r, scn, &dates), Err(e) => json!({"err": e.to_string()}) },
        None => json!({"err": "no export"}),
    });
    // e. import into an instance of another user (fresh the first time, holding the earlier version afterwards)
    let iname = s(step, "importer");
    let fresh = !world.peers.contains_key(&iname);
    world.ensure_peer(&iname, &format!("imp-{iname}")).await;
    let imp = &world.peers[&iname];
    let import = match exported {
        Some(rn) => match imp.services.signature_verification.verify_room_node(rn).await {
            Ok(rn) => match imp.db.add_room_node(rn).await {
                Ok(_) => {
                    imp.write_barrier().await;
                    let _ = imp.services.events.subcribe().await;
                    // the announced room is awaited until it decides like the definition the importer now stores
                    let istored = match imp.db.query(RoomAuthorisations::LOAD_QUERY, None).await {
                        Ok(jsn) => {
                            let mut ra = RoomAuthorisations { signing_key: signing_key_of(&imp.user), rooms: HashMap::new(), max_node_size: 1 << 20 };
                            match ra.load_json(&jsn) {
                                Ok(_) => match ra.rooms.get(&room) { Some(r) => matrix_of(r, scn, &dates), None => json!({"err": "room not stored"}) },
                                Err(e) => json!({"err": e.to_string()}),
                            }
                        }
                        Err(e) => json!({"err": e.to_string()}),
                    };
                    live_matrix(world, scn, &iname, room, &dates, Some(&istored)).await
                }
                Err(e) => json!({"err": e.to_string()}),
            },
            Err(e) => json!({"err": format!("signature: {e}")}),
        },
        None => json!({"err": "no export"}),
    };
    out.insert("import".to_string(), import);
    out.insert("import_fresh".to_string(), json!(fresh));
    // f. the importer restarts on what it stored
    let imp = &world.peers[&iname];
    let irestart = match Peer::start_in(&format!("{iname}-again"), &imp.user, MODEL, &world.config, imp.folder.clone()).await {
        Ok(_) => json!("ok"),
        Err(e) => json!(format!("err: {e}").chars().take(80).collect::<String>()),
    };
    out.insert("import_restart".to_string(), irestart);
    Ok(Value::Object(out))
}

pub fn signing_key_of(user: &str) -> vh::security::Ed25519SigningKey {
    let km = key_material_for(user);
    let sk = vh::security::derive_key(&format!("{} SIGNING_KEY", APP_KEY), &km);
    vh::security::Ed25519SigningKey::create_from(&sk)
}

fn flip(sig: &mut Vec<u8>) {
    if let Some(b) = sig.get_mut(5) {
        *b ^= 0x40;
    }
}

pub async fn inject(world: &World, scn: &mut Scn, step: &Value) -> Result<Value, String> {
    use vh::database::edge::{Edge, EdgeDeletionEntry};
    use vh::database::node::{Node, NodeDeletionEntry, NodeIdentifier};
    let dst = &world.peers[&s(step, "to")];
    let sync_room = scn.names.rooms.get(&s(step, "room")).cloned().ok_or("unknown room")?;
    let short_of = |ent: &str| -> String { world.short.get(&format!("v.{ent}")).cloned().unwrap_or_default() };
    // the storage name of the text field, taken from the persisted model
    let dm: Value = serde_json::from_str(&dst.db.datamodel().await.map_err(|e| e.to_string())?).map_err(|e| e.to_string())?;
    let field_short = find_field_short(&dm, "name").ok_or("no field short name")?;
    let mut nodes: Vec<Node> = Vec::new();
    let mut edges: Vec<Edge> = Vec::new();
    let mut ntombs: Vec<NodeDeletionEntry> = Vec::new();
    let mut etombs: Vec<EdgeDeletionEntry> = Vec::new();
    // the stored rows of the target, to build replacements and deletions of existing rows
    let st = read_store(dst, world.app_shorts(), scn.names.rooms.values().cloned().collect(), scn.names.rows.values().cloned().collect()).await;
    for it in arr(step, "items") {
        let kind = s(it, "kind");
        let key = signing_key_of(&s(it, "author"));
        let date = ts(i(it, "d") / 1000, i(it, "d") % 1000);
        let tamper = it.get("tamper").and_then(|t| t.as_str()).unwrap_or("none").to_string();
        match kind.as_str() {
            "node" => {
                let row = s(it, "row");
                let id = match scn.names.rows.get(&row) {
                    Some(i) => *i,
                    None => {
                        let i = vh::security::new_uid();
                        scn.names.add_row(&row, i);
                        i
                    }
                };
                let existing = st.nodes.iter().find(|n| n.id == id);
                let room = scn.names.rooms.get(&s(it, "stated")).cloned().ok_or("unknown stated room")?;
                let ent = if tamper == "entity" { "zz".to_string() } else { short_of(&s(it, "ent")) };
                let json = if tamper == "model" { format!("{{\"{}\":12}}", field_short) } else { format!("{{\"{}\":\"{}\"}}", field_short, s(it, "text")) };
                let mut n = Node { id, room_id: Some(room), cdate: existing.map(|e| e.cdate).unwrap_or(date), mdate: date, _entity: ent,
                    _json: Some(json), _binary: None, verifying_key: vec![], _signature: vec![], _local_id: None };
                n.sign(&key).map_err(|e| e.to_string())?;
                if tamper == "field" {
                    n._json = Some(format!("{{\"{}\":\"tampered\"}}", field_short));
                }
                if tamper == "sig" {
                    flip(&mut n._signature);
                }
                if tamper == "big" {
                    n._json = Some(format!("{{\"{}\":\"{}\"}}", field_short, "x".repeat(300 * 1024)));
                    n.sign(&key).map_err(|e| e.to_string())?;
                }
                nodes.push(n);
            }
            "edge" => {
                let src = scn.names.rows.get(&s(it, "src")).cloned().ok_or("unknown src")?;
                let dest = scn.names.rows.get(&s(it, "dst")).cloned().ok_or("unknown dst")?;
                let mut e = Edge { src, src_entity: short_of(&s(it, "ent")), label: find_field_short(&dm, "ra").unwrap_or_default(), dest, cdate: date,
                    verifying_key: vec![], signature: vec![] };
                e.sign(&key).map_err(|e| e.to_string())?;
                if tamper == "sig" {
                    flip(&mut e.signature);
                }
                if tamper == "field" {
                    e.cdate += 1;
                }
                edges.push(e);
            }
            "ntomb" => {
                let id = scn.names.rows.get(&s(it, "row")).cloned().ok_or("unknown row")?;
                let room = scn.names.rooms.get(&s(it, "stated")).cloned().ok_or("unknown stated room")?;
                let existing = st.nodes.iter().find(|n| n.id == id);
                let n = Node { id, room_id: Some(room), cdate: 0, mdate: existing.map(|e| e.mdate).unwrap_or(date), _entity: short_of(&s(it, "ent")),
                    _json: None, _binary: None, verifying_key: vec![], _signature: vec![], _local_id: None };
                let mut t = NodeDeletionEntry::build(room, &n, date, &key);
                if tamper == "sig" {
                    flip(&mut t.signature);
                }
                if tamper == "field" {
                    t.deletion_date += 1;
                }
                ntombs.push(t);
            }
            "etomb" => {
                let src = scn.names.rows.get(&s(it, "src")).cloned().ok_or("unknown src")?;
                let dest = scn.names.rows.get(&s(it, "dst")).cloned().ok_or("unknown dst")?;
                let room = scn.names.rooms.get(&s(it, "stated")).cloned().ok_or("unknown stated room")?;
                let existing = st.edges.iter().find(|e| e.src == src && e.dest == dest);
                let e = Edge { src, src_entity: short_of(&s(it, "ent")), label: existing.map(|e| e.label.clone()).unwrap_or(find_field_short(&dm, "ra").unwrap_or_default()),
                    dest, cdate: existing.map(|e| e.cdate).unwrap_or(date), verifying_key: vec![], signature: vec![] };
                let mut t = EdgeDeletionEntry::build(room, &e, date, &key);
                if tamper == "sig" {
                    flip(&mut t.signature);
                }
                etombs.push(t);
            }
            other => return Err(format!("unknown item kind {other}")),
        }
    }
    let sv = &dst.services.signature_verification;
    let mut out = Map::new();
    if !etombs.is_empty() {
        match sv.verify_edge_log(etombs).await {
            Ok(v) => {
                dst.db.delete_edges(v).await.map_err(|e| e.to_string())?;
                out.insert("etombs".to_string(), json!("ingested"));
            }
            Err(e) => {
                out.insert("etombs".to_string(), json!(format!("sig: {e}").chars().take(40).collect::<String>()));
            }
        }
    }
    if !ntombs.is_empty() {
        match sv.verify_node_log(ntombs).await {
            Ok(v) => {
                dst.db.delete_nodes(v).await.map_err(|e| e.to_string())?;
                out.insert("ntombs".to_string(), json!("ingested"));
            }
            Err(e) => {
                out.insert("ntombs".to_string(), json!(format!("sig: {e}").chars().take(40).collect::<String>()));
            }
        }
    }
    if !nodes.is_empty() {
        let mut set = HashSet::new();
        for n in &nodes {
            set.insert(NodeIdentifier { id: n.id, mdate: n.mdate, signature: n._signature.clone() });
        }
        let filtered = dst.db.filter_existing_node(sync_room, set).await.map_err(|e| e.to_string())?;
        let mut wanted: HashMap<Uid, vh::database::node::NodeToInsert> = filtered.into_iter().map(|f| (f.id, f)).collect();
        nodes.retain(|n| wanted.contains_key(&n.id));
        match sv.verify_nodes(nodes).await {
            Ok(nodes) => {
                let mut ntis = Vec::new();
                for mut n in nodes {
                    if let Some(mut nti) = wanted.remove(&n.id) {
                        n._local_id = nti.old_local_id;
                        nti.node = Some(n);
                        ntis.push(nti);
                    }
                }
                let rej = dst.db.add_nodes(sync_room, ntis).await.map_err(|e| e.to_string())?;
                out.insert("nodes".to_string(), json!(rej.iter().map(|r| scn.names.row(r)).collect::<Vec<_>>()));
            }
            Err(e) => {
                out.insert("nodes".to_string(), json!(format!("sig: {e}").chars().take(40).collect::<String>()));
            }
        }
    }
    if !edges.is_empty() {
        match sv.verify_edges(edges).await {
            Ok(edges) => {
                let rej = dst.db.add_edges(sync_room, edges).await.map_err(|e| e.to_string())?;
                out.insert("edges".to_string(), json!(rej.iter().map(|r| scn.names.row(r)).collect::<Vec<_>>()));
            }
            Err(e) => {
                out.insert("edges".to_string(), json!(format!("sig: {e}").chars().take(40).collect::<String>()));
            }
        }
    }
    dst.recompute().await;
    Ok(Value::Object(out))
}

fn find_field_short(v: &Value, field: &str) -> Option<String> {
    // generic walk: an object with "name": field and a "short_name"
    match v {
        Value::Object(m) => {
            if m.get("name").and_then(|n| n.as_str()) == Some(field) && !m.contains_key("fields") {
                if let Some(s) = m.get("short_name").and_then(|n| n.as_str()) {
                    return Some(s.to_string());
                }
            }
            for (_, x) in m {
                if let Some(r) = find_field_short(x, field) {
                    return Some(r);
                }
            }
            None
        }
        Value::Array(a) => a.iter().find_map(|x| find_field_short(x, field)),
        _ => None,
    }
}

fn err_class(e: &str) -> String {
    let e = e.to_lowercase();
    if e.contains("authorisation") || e.contains("rejected") {
        "auth".to_string()
    } else if e.contains("unknown") {
        "unknown".to_string()
    } else {
        "other".to_string()
    }
}

pub async fn run_step(world: &mut World, scn: &mut Scn, step: &Value, out: &mut TraceWriter) {
    let op = s(step, "op");
    let mut ev = step.clone();
    ev["ev"] = json!(op);
    ev.as_object_mut().unwrap().remove("op");
    let mut res: Result<(), String> = Ok(());
    if op == "tick" {
        // moving the clock is not an observable step
        set_clock(i(step, "d"), i(step, "k"));
        return;
    }
    match op.as_str() {
        "tick" => set_clock(i(step, "d"), i(step, "k")),
        "room" => {
            let p = &world.peers[&s(step, "p")];
            let users: Vec<Vec<u8>> = {
                let mut seen = HashSet::new();
                let mut v = Vec::new();
                for q in &scn.peers {
                    let k = world.peers[q].vkey.clone();
                    if seen.insert(k.clone()) {
                        v.push(k);
                    }
                }
                v
            };
            match create_open_room(p, &users).await {
                Ok(id) => scn.names.add_room(&s(step, "room"), id),
                Err(e) => res = Err(e),
            }
        }
        "roomdef" => {
            let p = &world.peers[&s(step, "p")];
            let mut pr = discret::Parameters::default();
            use discret::ParametersAdd;
            let mut n = 0;
            let mut keyparam = |u: &str, pr: &mut discret::Parameters| -> String {
                n += 1;
                let k = scn.user_key.get(u).cloned().unwrap_or_default();
                pr.add(&format!("k{n}"), vh::security::base64_encode(&k)).unwrap();
                format!("$k{n}")
            };
            let mut q = String::from("mutate { sys.Room { admin: [");
            for a in arr(step, "admins") {
                let kp = keyparam(a.as_str().unwrap(), &mut pr);
                q.push_str(&format!("{{verif_key:{kp}}},"));
            }
            if q.ends_with(',') {
                q.pop();
            }
            q.push_str("] authorisations:[");
            for (gi, g) in arr(step, "groups").iter().enumerate() {
                if gi > 0 {
                    q.push(',');
                }
                q.push_str(&format!("{{ name:\"{}\" ", s(g, "g")));
                if !arr(g, "rights").is_empty() {
                    q.push_str("rights:[");
                    for r in arr(g, "rights") {
                        let e = s(r, "ent");
                        let ent = if e == "*" { e } else { format!("v.{e}") };
                        q.push_str(&format!("{{entity:\"{}\" mutate_self:{} mutate_all:{}}},", ent, r["self"].as_bool().unwrap(), r["all"].as_bool().unwrap()));
                    }
                    q.pop();
                    q.push_str("] ");
                }
                if !arr(g, "users").is_empty() {
                    q.push_str("users:[");
                    for u in arr(g, "users") {
                        let kp = keyparam(u.as_str().unwrap(), &mut pr);
                        q.push_str(&format!("{{verif_key:{kp}}},"));
                    }
                    q.pop();
                    q.push_str("] ");
                }
                if !arr(g, "uadmins").is_empty() {
                    q.push_str("user_admin:[");
                    for u in arr(g, "uadmins") {
                        let kp = keyparam(u.as_str().unwrap(), &mut pr);
                        q.push_str(&format!("{{verif_key:{kp}}},"));
                    }
                    q.pop();
                    q.push_str("] ");
                }
                q.push_str("} ");
            }
            q.push_str("] } }");
            match p.db.mutate(&q, Some(pr)).await {
                Ok(r) => match id_of_result(&r, "sys.Room") {
                    Some(id) => {
                        scn.names.add_room(&s(step, "room"), id);
                        if let Ok(v) = serde_json::from_str::<Value>(&r) {
                            if let Some(auths) = v["sys.Room"]["authorisations"].as_array() {
                                for (i, a) in auths.iter().enumerate() {
                                    if let Some(aid) = a["id"].as_str().and_then(|x| vh::security::uid_decode(x).ok()) {
                                        let gname = s(&arr(step, "groups")[i], "g");
                                        scn.auth_ids.insert((s(step, "room"), gname), aid);
                                    }
                                }
                            }
                        }
                    }
                    None => res = Err(format!("no id in {r}")),
                },
                Err(e) => res = Err(e.to_string()),
            }
        }
        "roomupd" => {
            let p = &world.peers[&s(step, "p")];
            use discret::ParametersAdd;
            let room = scn.names.rooms.get(&s(step, "room")).cloned();
            let what = s(step, "what");
            match room {
                None => res = Err("unknown room".to_string()),
                Some(room) => {
                    let mut pr = discret::Parameters::default();
                    pr.add("room", uid_encode(&room)).unwrap();
                    let entry = if what == "right" {
                        let e = s(step, "ent");
                        let ent = if e == "*" { e } else { format!("v.{e}") };
                        format!("rights:[{{entity:\"{}\" mutate_self:{} mutate_all:{}}}]", ent, step["self"].as_bool().unwrap(), step["all"].as_bool().unwrap())
                    } else {
                        let k = scn.user_key.get(&s(step, "user")).cloned().unwrap_or_default();
                        pr.add("k", vh::security::base64_encode(&k)).unwrap();
                        let field = match what.as_str() { "user" => "users", "uadmin" => "user_admin", _ => "admin" };
                        format!("{field}:[{{verif_key:$k enabled:{}}}]", step["enabled"].as_bool().unwrap_or(true))
                    };
                    let q = if what == "admin" {
                        format!("mutate {{ sys.Room {{ id:$room {entry} }} }}")
                    } else {
                        match scn.auth_ids.get(&(s(step, "room"), s(step, "g"))) {
                            Some(aid) => {
                                pr.add("auth", uid_encode(aid)).unwrap();
                                format!("mutate {{ sys.Room {{ id:$room authorisations:[{{ id:$auth {entry} }}] }} }}")
                            }
                            None => String::new(),
                        }
                    };
                    if q.is_empty() {
                        res = Err("unknown group".to_string());
                    } else if let Err(e) = p.db.mutate(&q, Some(pr)).await {
                        res = Err(e.to_string());
                    }
                }
            }
        }
        "put" => {
            let p = &world.peers[&s(step, "p")];
            let row = s(step, "row");
            let ent = world.ent_full(&s(step, "ent"));
            let text = s(step, "text");
            match scn.names.rows.get(&row).cloned() {
                None => {
                    let room = scn.names.rooms.get(&s(step, "room")).cloned();
                    match room {
                        None => res = Err("unknown room".to_string()),
                        Some(room) => {
                            let q = format!("mutate {{ {ent} {{ room_id:$room name:$text }} }}");
                            match p.db.mutate(&q, params(&[("room", uid_encode(&room)), ("text", text)])).await {
                                Ok(r) => match id_of_result(&r, &ent) {
                                    Some(id) => scn.names.add_row(&row, id),
                                    None => res = Err(format!("no id in {r}")),
                                },
                                Err(e) => res = Err(e.to_string()),
                            }
                        }
                    }
                }
                Some(id) => {
                    let q = format!("mutate {{ {ent} {{ id:$id name:$text }} }}");
                    if let Err(e) = p.db.mutate(&q, params(&[("id", uid_encode(&id)), ("text", text)])).await {
                        res = Err(e.to_string());
                    }
                }
            }
        }
        "move" => {
            let p = &world.peers[&s(step, "p")];
            let ent = world.ent_full(&s(step, "ent"));
            match (scn.names.rows.get(&s(step, "row")).cloned(), scn.names.rooms.get(&s(step, "room")).cloned()) {
                (Some(id), Some(room)) => {
                    // a mutation that only names another room is ignored by the library (no field changed): a move also writes the text
                    let r = match step.get("text").and_then(|t| t.as_str()) {
                        Some(text) => p.db.mutate(&format!("mutate {{ {ent} {{ id:$id room_id:$room name:$text }} }}"),
                            params(&[("id", uid_encode(&id)), ("room", uid_encode(&room)), ("text", text.to_string())])).await,
                        None => p.db.mutate(&format!("mutate {{ {ent} {{ id:$id room_id:$room }} }}"), params(&[("id", uid_encode(&id)), ("room", uid_encode(&room))])).await,
                    };
                    if let Err(e) = r {
                        res = Err(e.to_string());
                    }
                }
                _ => res = Err("unknown row or room".to_string()),
            }
        }
        "ref" | "unref" => {
            let p = &world.peers[&s(step, "p")];
            let ent = world.ent_full(&s(step, "ent"));
            match (scn.names.rows.get(&s(step, "row")).cloned(), scn.names.rows.get(&s(step, "to")).cloned()) {
                (Some(id), Some(to)) => {
                    let pr = params(&[("id", uid_encode(&id)), ("to", uid_encode(&to))]);
                    let field = format!("r{}", step.get("tent").and_then(|t| t.as_str()).unwrap_or("A").to_lowercase());
                    let r = if op == "ref" {
                        p.db.mutate(&format!("mutate {{ {ent} {{ id:$id {field}:[{{id:$to}}] }} }}"), pr).await.map(|_| ())
                    } else {
                        p.db.delete(&format!("delete {{ {ent} {{ $id {field}[$to] }} }}"), pr).await.map(|_| ())
                    };
                    if let Err(e) = r {
                        res = Err(e.to_string());
                    }
                }
                _ => res = Err("unknown row".to_string()),
            }
        }
        "del" => {
            let p = &world.peers[&s(step, "p")];
            let ent = world.ent_full(&s(step, "ent"));
            match scn.names.rows.get(&s(step, "row")).cloned() {
                Some(id) => {
                    if let Err(e) = p.db.delete(&format!("delete {{ {ent} {{ $id }} }}"), params(&[("id", uid_encode(&id))])).await {
                        res = Err(e.to_string());
                    }
                }
                None => res = Err("unknown row".to_string()),
            }
        }
        "stream" => {
            // several creations pipelined on the mutation stream, then the stream is closed
            let p = &world.peers[&s(step, "p")];
            let (send, mut recv) = p.db.mutation_stream();
            let items = arr(step, "items").clone();
            let room = scn.names.rooms.get(&s(step, "room")).cloned();
            let mut pending = Vec::new();
            if let Some(room) = room {
                let n = items.len();
                let feeder = async {
                    for it in &items {
                        let ent = world.ent_full(&s(it, "ent"));
                        let q = format!("mutate {{ {ent} {{ room_id:$room name:$text }} }}");
                        let _ = send.send((q, params(&[("room", uid_encode(&room)), ("text", s(it, "text"))]))).await;
                    }
                    drop(send);
                };
                let collector = async {
                    let mut got = Vec::new();
                    while let Some(r) = recv.recv().await {
                        got.push(r);
                        if got.len() == n {
                            break;
                        }
                    }
                    got
                };
                let (_, got) = tokio::join!(feeder, collector);
                for (i, r) in got.into_iter().enumerate() {
                    match r {
                        Ok(mq) => {
                            let ent = world.ent_full(&s(&items[i], "ent"));
                            if let Ok(txt) = mq.result() {
                                if let Some(id) = id_of_result(&txt, &ent) {
                                    pending.push((s(&items[i], "row"), id));
                                }
                            }
                        }
                        Err(e) => res = Err(e.to_string()),
                    }
                }
            } else {
                res = Err("unknown room".to_string());
            }
            for (row, id) in pending {
                scn.names.add_row(&row, id);
            }
        }
        "offer" => {
            // everything instance `from` stores for the room is offered to instance `to` through the ingestion
            // entry points the synchronisation uses (signature verification included), whatever the logs say
            match offer(world, scn, &s(step, "from"), &s(step, "to"), &s(step, "room")).await {
                Ok(v) => {
                    ev["rejected_nodes"] = v["rejected_nodes"].clone();
                    ev["rejected_edges"] = v["rejected_edges"].clone();
                    ev["sigfail"] = v["sigfail"].clone();
                }
                Err(e) => res = Err(e),
            }
        }
        "inject" => {
            // rows built and signed by the harness (it holds every user's key) go through the ingestion entry
            // points of the synchronisation of room `room` on instance `to`
            match inject(world, scn, step).await {
                Ok(v) => {
                    ev["outcome"] = v;
                }
                Err(e) => res = Err(e),
            }
        }
        "forge" => {
            match forge(world, scn, step).await {
                Ok(v) => ev["out"] = v,
                Err(e) => res = Err(e),
            }
        }
        "serve" => {
            match serve(world, scn, step).await {
                Ok(v) => ev["answers"] = v,
                Err(e) => res = Err(e),
            }
        }
        "roompaths" => {
            match room_paths(world, scn, step).await {
                Ok(v) => ev["paths"] = v,
                Err(e) => res = Err(e),
            }
        }
        "compute" => {
            world.peers[&s(step, "p")].recompute().await;
        }
        "idle" => {
            // nothing happens: asynchronous announcements of the previous operations get a later observation
            tokio::time::sleep(std::time::Duration::from_millis(60)).await;
        }
        "pull" => {
            let (p, q) = (s(step, "p"), s(step, "q"));
            match scn.names.rooms.get(&s(step, "room")).cloned() {
                Some(room) => {
                    let abort = step.get("abort").and_then(|a| a.as_u64()).map(|a| a as usize);
                    let own = step.get("norecompute").and_then(|a| a.as_bool()).unwrap_or(false);
                    let dbg = std::env::var("DV_DEBUG").is_ok();
                    if !own {
                        if dbg { eprintln!("pull: recompute q"); }
                        world.peers[&q].recompute().await;
                        if dbg { eprintln!("pull: recompute p"); }
                        world.peers[&p].recompute().await;
                    }
                    if dbg { eprintln!("pull: sync"); }
                    let (r, stats) = pull(&world.peers[&p], &world.peers[&q], room, abort).await;
                    if dbg { eprintln!("pull: done {:?} queries={}", r, stats.queries); }
                    if !own {
                        world.peers[&p].recompute().await;
                    }
                    ev["fetched"] = json!(stats.nodes_requested);
                    ev["queries"] = json!(stats.queries);
                    if let Err(e) = r {
                        res = Err(e);
                    }
                }
                None => res = Err("unknown room".to_string()),
            }
        }
        "quiesce" => {
            // rounds of all directed pulls until a full round changes nothing and fetches nothing
            let room = scn.names.rooms.get(&s(step, "room")).cloned();
            let max_rounds = step.get("max").and_then(|a| a.as_i64()).unwrap_or(6);
            let mut rounds = 0;
            let mut quiet = false;
            let mut last_fetch = 0usize;
            if let Some(room) = room {
                while rounds < max_rounds && !quiet {
                    rounds += 1;
                    let before = project_all(world, scn).await;
                    let mut fetched = 0usize;
                    for p in scn.peers.clone() {
                        for q in scn.peers.clone() {
                            if p == q {
                                continue;
                            }
                            world.peers[&q].recompute().await;
                            world.peers[&p].recompute().await;
                            let (r, stats) = pull(&world.peers[&p], &world.peers[&q], room, None).await;
                            world.peers[&p].recompute().await;
                            fetched += stats.nodes_requested;
                            let st = project_all(world, scn).await;
                            out.emit(json!({"ev":"pull","p":p,"q":q,"room":s(step,"room"),"fetched":stats.nodes_requested,
                                "queries":stats.queries,"res": if r.is_ok() {"ok"} else {"err"}, "st": st, "auto": true}));
                        }
                    }
                    let after = project_all(world, scn).await;
                    last_fetch = fetched;
                    quiet = before == after && fetched == 0;
                }
            }
            ev["rounds"] = json!(rounds);
            ev["quiet"] = json!(quiet);
            ev["last_fetch"] = json!(last_fetch);
        }
        "search" => {
            let ent = world.ent_full(&s(step, "ent"));
            let tok = s(step, "tok");
            let mut found = Map::new();
            for pn in scn.peers.clone() {
                let p = &world.peers[&pn];
                let q = format!("query {{ {ent} (search($tok)) {{ id }} }}");
                let mut rows: Vec<String> = Vec::new();
                match p.db.query(&q, params(&[("tok", tok.clone())])).await {
                    Ok(r) => {
                        if let Ok(v) = serde_json::from_str::<Value>(&r) {
                            if let Some(a) = v[&ent].as_array() {
                                for x in a {
                                    if let Some(id) = x["id"].as_str() {
                                        if let Ok(u) = vh::security::uid_decode(id) {
                                            if scn.names.row_names.contains_key(&u) {
                                                rows.push(scn.names.row(&u));
                                            }
                                        }
                                    }
                                }
                            }
                        }
                    }
                    Err(e) => rows.push(format!("ERR {e}")),
                }
                rows.sort();
                found.insert(pn, json!(rows));
            }
            ev["found"] = Value::Object(found);
        }
        other => panic!("unknown op {other}"),
    }
    if res.is_ok() && (op == "room" || op == "roomdef" || op == "roomupd") {
        *scn.pending_room_events.entry(s(step, "p")).or_insert(0) += 1;
        if let Some(r) = step.get("room").and_then(|r| r.as_str()).and_then(|r| scn.names.rooms.get(r)).cloned() {
            scn.touched_rooms.entry(s(step, "p")).or_default().insert(r);
        }
    }
    match &res {
        Ok(_) => ev["res"] = json!("ok"),
        Err(e) => {
            ev["res"] = json!("err");
            ev["err"] = json!(err_class(e));
            ev["msg"] = json!(e.chars().take(120).collect::<String>());
        }
    }
    let dbg = std::env::var("DV_DEBUG").is_ok();
    if op != "tick" {
        for p in scn.peers.clone() {
            if dbg { eprintln!("barrier {p}"); }
            world.peers[&p].write_barrier().await;
        }
    }
    if dbg { eprintln!("project"); }
    if scn.events {
        ev["events"] = drain_events(world, scn).await;
    } else {
        absorb_room_events(world, scn);
    }
    ev["st"] = project_all(world, scn).await;
    if dbg { eprintln!("defs"); }
    if scn.defs {
        // definitions can only change through room mutations and pulls
        if scn.defs_cache.is_none() || matches!(op.as_str(), "roomdef" | "roomupd" | "pull" | "quiesce" | "room" | "offer") {
            let mut m = Map::new();
            for p in scn.peers.clone() {
                m.insert(p.clone(), project_defs(world, scn, &p).await);
            }
            scn.defs_cache = Some(Value::Object(m));
        }
        ev["defs"] = scn.defs_cache.clone().unwrap();
    }
    ev["now"] = json!(abs_date(discret::verif_hooks::date_utils::now()));
    out.emit(ev);
}

pub async fn run_scenario(world: &mut World, sc: &Value, out: &mut TraceWriter) {
    let peers: Vec<String> = arr(sc, "peers").iter().map(|x| x.as_str().unwrap().to_string()).collect();
    let mut scn = Scn { names: Names::default(), hash_ids: HashMap::new(), terms: HashMap::new(), peers: peers.clone(), events: sc.get("events").and_then(|e| e.as_bool()).unwrap_or(false),
        defs: sc.get("defs").and_then(|e| e.as_bool()).unwrap_or(false), auth_ids: HashMap::new(), user_key: HashMap::new(), defs_cache: None, live_rooms: HashMap::new(), conns: HashMap::new(), pending_room_events: HashMap::new(), room_queue: HashMap::new(), touched_rooms: HashMap::new() };
    for p in &peers {
        let user = sc["users"][p].as_str().unwrap_or("u1").to_string();
        world.ensure_peer(p, &user).await;
        let k = world.peers[p].vkey.clone();
        scn.user_key.insert(user.clone(), k.clone());
        scn.names.keys.insert(k, user);
    }
    set_clock(0, 1);
    if scn.events {
        let _ = drain_events(world, &scn).await; // forget what earlier scenarios left in the subscribers
    }
    out.emit(json!({"ev":"begin","sid":sc["sid"],"peers":peers,"users":sc["users"]}));
    for step in arr(sc, "steps") {
        run_step(world, &mut scn, step, out).await;
    }
    out.emit(json!({"ev":"end"}));
}

pub fn main(args: &[String]) -> i32 {
    if args.len() < 2 {
        eprintln!("usage: dv world <scenarios.ndjson> <trace.ndjson>");
        return 2;
    }
    let scenarios = read_scenarios(&args[0]);
    let mut out = TraceWriter::create(&args[1]);
    let rt = tokio::runtime::Builder::new_multi_thread().worker_threads(4).enable_all().build().unwrap();
    rt.block_on(async {
        let mut world = World::new().await;
        for sc in &scenarios {
            run_scenario(&mut world, sc, &mut out).await;
            out.flush();
        }
    });
    out.flush();
    println!("{{\"scenarios\":{},\"events\":{}}}", scenarios.len(), out.events);
    cleanup_run_dir();
    // leave without tearing the services down (their threads still hold connections)
    std::process::exit(0);
}
