//! C19: (a) the connection initialisation of the real LocalPeerService against every behaviour of the remote
//! side (the harness answers the ProveIdentity query), (b) invitations on real PeerManagers, (c) meeting tokens.
use crate::common::*;
use crate::scen::signing_key_of;
use crate::world::*;
use discret::verif_hooks as vh;
use discret::Configuration;
use serde_json::{json, Value};
use std::collections::HashMap;
use std::sync::atomic::{AtomicBool, Ordering};
use std::sync::Arc;
use tokio::sync::{mpsc, Mutex};
use vh::database::node::Node;
use vh::database::system_entities::{AllowedPeer, Invite, OwnedInvite, Peer as SysPeer};
use vh::network::peer_manager::{PeerManager, TokenType};
use vh::network::ConnectionInfo;
use vh::peer_connection_service::{PeerConnectionMessage, PeerConnectionService};
use vh::security::{base64_encode, derive_key, MeetingSecret, SigningKey};
use vh::synchronisation::peer_inbound_service::{LocalPeerService, QueryService};
use vh::synchronisation::{Answer, IdentityAnswer, Query, QueryProtocol, RemoteEvent};

pub struct Party {
    pub peer: Peer,
    pub node: Node, // its sys.Peer row
}

async fn party(name: &str, user: &str, config: &Configuration) -> Party {
    let peer = Peer::start(name, user, MODEL, config).await;
    let node = peer.db.get_peer_node(peer.vkey.clone()).await.expect("peer node").expect("peer node exists");
    Party { peer, node }
}

fn meeting_secret_of(user: &str) -> MeetingSecret {
    MeetingSecret::new(derive_key(&format!("{}{}", "MEETING_SECRET", APP_KEY), &key_material_for(user)))
}

async fn handshake(parties: &HashMap<String, Party>, sc: &Value) -> Value {
    let local = &parties["u1"];
    let expected = s(sc, "expected");
    let remote = &sc["remote"];
    // the token type the peer manager would have found for the meeting token of this connection
    let token_type = match s(sc, "token").as_str() {
        "allowed" => TokenType::AllowedPeer(AllowedPeer {
            peer: SysPeer { id: "x".to_string(), verifying_key: base64_encode(&parties[&expected].peer.vkey) },
            meeting_token: "t".to_string(),
        }),
        "owned" => TokenType::OwnedInvite(OwnedInvite { id: vh::security::new_uid(), room: None, authorisation: None }),
        _ => {
            // an invitation created by `expected`, accepted by the local user
            let inviter = &parties[&expected];
            let (inv, _owned) = Invite::create(vh::security::uid_encode(&inviter.peer.private_room), None, APP_KEY.to_string(), &inviter.peer.db).await.expect("invite");
            TokenType::Invite(inv)
        }
    };
    let (q_send, mut q_recv) = mpsc::channel::<QueryProtocol>(10);
    let (a_send, a_recv) = mpsc::channel::<Answer>(10);
    let query_service = QueryService::start(q_send, a_recv);
    let (ps_send, mut ps_recv) = mpsc::channel::<PeerConnectionMessage>(32);
    let peer_service = PeerConnectionService { sender: ps_send };
    let (ev_send, mut ev_recv) = mpsc::channel::<RemoteEvent>(32);
    let remote_key = Arc::new(Mutex::new(Vec::<u8>::new()));
    let conn_ready = Arc::new(AtomicBool::new(true));
    let info = ConnectionInfo { endpoint_id: Default::default(), remote_id: Default::default(), conn_id: vh::security::new_uid(), meeting_token: Default::default(), peer_verifying_key: vec![] };
    // the remote side
    let signer = s(remote, "signer");
    let signer_key = signing_key_of(&signer);
    let node_spec = s(remote, "node");
    let mut node = if let Some(other) = node_spec.strip_prefix("other:") { parties[other].node.clone() } else { parties[&signer].node.clone() };
    match node_spec.as_str() {
        "room" => node.room_id = Some(vh::security::new_uid()),
        "entity" => node._entity = "0.2".to_string(),
        "tampered" => node.mdate += 1,
        _ => {}
    }
    let challenge_mode = s(remote, "challenge");
    let answer_mode = s(remote, "answer");
    let responder = tokio::spawn(async move {
        if let Some(msg) = q_recv.recv().await {
            if let Query::ProveIdentity(challenge) = msg.query {
                let signed = if challenge_mode == "this" { challenge } else { vec![7u8; 32] };
                let sig = signer_key.sign(&signed);
                match answer_mode.as_str() {
                    "ok" => {
                        let ia = IdentityAnswer { peer: node, chall_signature: sig };
                        let _ = a_send.send(Answer { id: msg.id, success: true, complete: true, serialized: vh::bincode::serialize(&ia).unwrap() }).await;
                    }
                    "fail" => {
                        let _ = a_send.send(Answer { id: msg.id, success: false, complete: true, serialized: vh::bincode::serialize(&vh::synchronisation::Error::Technical).unwrap() }).await;
                    }
                    "garbage" => {
                        let _ = a_send.send(Answer { id: msg.id, success: true, complete: true, serialized: vec![1, 2, 3] }).await;
                    }
                    _ => {
                        drop(a_send); // the remote goes away without answering
                    }
                }
            }
        }
        // keep the query channel open a little so that later sends do not fail for an unrelated reason
        tokio::time::sleep(std::time::Duration::from_millis(50)).await;
    });
    let res = LocalPeerService::initialise_connection(&info, &local.peer.vkey, token_type, &conn_ready, &query_service, &remote_key, &peer_service, &ev_send).await;
    let _ = responder.await;
    let bound = remote_key.lock().await.clone();
    let mut events = Vec::new();
    while let Ok(e) = ev_recv.try_recv() {
        events.push(match e { RemoteEvent::Ready => "Ready", RemoteEvent::ReadyFingerprint => "ReadyFingerprint", _ => "other" });
    }
    let mut msgs = Vec::new();
    while let Ok(m) = ps_recv.try_recv() {
        match m {
            PeerConnectionMessage::PeerConnected(k, _) => msgs.push(json!({"m":"connected","key":user_of(parties, &k)})),
            PeerConnectionMessage::InviteAccepted(_, n) => msgs.push(json!({"m":"invite_accepted","key":user_of(parties, &n.verifying_key)})),
            _ => msgs.push(json!({"m":"other"})),
        }
    }
    json!({"result": match &res { Ok(true) => "ok", Ok(false) => "silent", Err(_) => "err" }, "bound": user_of(parties, &bound), "events": events, "msgs": msgs,
        "ready": conn_ready.load(Ordering::Relaxed)})
}

fn user_of(parties: &HashMap<String, Party>, key: &[u8]) -> String {
    if key.is_empty() {
        return "".to_string();
    }
    for (u, p) in parties {
        if p.peer.vkey == key {
            return u.clone();
        }
    }
    "?".to_string()
}

pub async fn manager(p: &Party, app: &str, config: &Configuration) -> (PeerManager, mpsc::Receiver<PeerConnectionMessage>) {
    let (ps_send, ps_recv) = mpsc::channel::<PeerConnectionMessage>(64);
    let peer_service = PeerConnectionService { sender: ps_send };
    let endpoint = vh::network::endpoint::DiscretEndpoint::start(peer_service, 1024 * 64, &p.peer.vkey).await.expect("endpoint");
    let params = vh::discret::DiscretParams { app_key: app.to_string(), verifying_key: p.peer.vkey.clone(), private_room_id: p.peer.private_room,
        hardware_fingerprint: vh::security::HardwareFingerprint { id: Default::default(), name: "dv".to_string() }, configuration: config.clone() };
    let pm = PeerManager::new(&params, &p.peer.services, endpoint, None, meeting_secret_of(&p.peer.user)).await.expect("peer manager");
    (pm, ps_recv)
}

async fn invites(parties: &HashMap<String, Party>, sc: &Value, config: &Configuration) -> Vec<Value> {
    let mut out = Vec::new();
    // fresh managers: the invitations of earlier scenarios are still stored, so the inviter is a fresh instance per scenario
    let inviter_name = format!("inv{}", i(sc, "sid"));
    let inviter = party(&inviter_name, &inviter_name, config).await;
    let (mut pm_a, _rx_a) = manager(&inviter, APP_KEY, config).await;
    let (mut pm_b, _rx_b) = manager(&parties["u2"], APP_KEY, config).await;
    let (mut pm_other, _rx_o) = manager(&parties["u3"], "another app", config).await;
    let mut invites: Vec<Vec<u8>> = Vec::new();
    for op in arr(sc, "ops") {
        let name = s(op, "op");
        let mut ev = op.clone();
        ev["ev"] = json!(name);
        ev.as_object_mut().unwrap().remove("op");
        match name.as_str() {
            "create" => match pm_a.create_invite(None).await {
                Ok(b) => {
                    invites.push(b);
                    ev["res"] = json!("ok");
                }
                Err(e) => ev["res"] = json!(format!("err {e}")),
            },
            "accept" => {
                let idx = i(op, "i") as usize;
                let r = if s(op, "by") == "wrongapp" { pm_other.accept_invite(&invites[idx]).await } else { pm_b.accept_invite(&invites[idx]).await };
                ev["res"] = json!(if r.is_ok() { "ok" } else { "err" });
            }
            "lookup" => {
                let idx = i(op, "i") as usize;
                let inv: Invite = vh::bincode::deserialize(&invites[idx]).unwrap();
                let token = MeetingSecret::derive_token("P", &inv.invite_id);
                let r = pm_a.get_token_type(&token, &parties[&s(op, "key")].peer.vkey);
                ev["found"] = json!(match r { Ok(TokenType::OwnedInvite(_)) => "owned_invite", Ok(TokenType::Invite(_)) => "invite", Ok(TokenType::AllowedPeer(_)) => "allowed_peer", Err(_) => "none" });
            }
            "consume" => {
                // what the connection initialisation does once the remote user has proven its key on a connection opened with the invitation's token
                let idx = i(op, "i") as usize;
                let inv: Invite = vh::bincode::deserialize(&invites[idx]).unwrap();
                let token = MeetingSecret::derive_token("P", &inv.invite_id);
                let by = &parties[&s(op, "by")];
                match pm_a.get_token_type(&token, &by.peer.vkey) {
                    Ok(tt @ TokenType::OwnedInvite(_)) => {
                        let r = pm_a.invite_accepted(tt, by.node.clone()).await;
                        ev["res"] = json!(if r.is_ok() { "consumed" } else { "err" });
                    }
                    Ok(_) => ev["res"] = json!("not an invitation"),
                    Err(_) => ev["res"] = json!("refused"),
                }
            }
            other => panic!("unknown op {other}"),
        }
        let allowed = inviter.peer.db.get_allowed_peers(inviter.peer.private_room).await.map(|v| v.len()).unwrap_or(0);
        ev["allowed_peers"] = json!(allowed);
        out.push(ev);
    }
    out
}

pub fn main(args: &[String]) -> i32 {
    if args.len() < 2 {
        eprintln!("usage: dv handshake <scenarios.ndjson> <trace.ndjson>");
        return 2;
    }
    let scenarios = read_scenarios(&args[0]);
    let mut out = TraceWriter::create(&args[1]);
    let rt = tokio::runtime::Builder::new_multi_thread().worker_threads(3).enable_all().build().unwrap();
    rt.block_on(async {
        let mut config = Configuration::default();
        config.parallelism = 2;
        config.enable_multicast = false;
        config.enable_beacons = false;
        let mut parties: HashMap<String, Party> = HashMap::new();
        for u in ["u1", "u2", "u3"] {
            parties.insert(u.to_string(), party(&format!("h{u}"), u, &config).await);
        }
        for sc in &scenarios {
            out.emit(json!({"ev":"begin","sid":sc["sid"]}));
            match s(sc, "kind").as_str() {
                "handshake" => {
                    let o = handshake(&parties, sc).await;
                    out.emit(json!({"ev":"handshake","token":sc["token"],"expected":sc["expected"],"remote":sc["remote"],"out":o}));
                }
                "invite" => {
                    for e in invites(&parties, sc, &config).await {
                        out.emit(e);
                    }
                }
                "tokens" => {
                    // the token two users derive for each other
                    let users = ["u1", "u2", "u3", "u4"];
                    let mut toks = Vec::new();
                    for a in users {
                        for b in users {
                            let t = meeting_secret_of(a).token(&meeting_secret_of(b).public_key());
                            toks.push(json!({"a": a, "b": b, "t": hex8(&t)}));
                        }
                    }
                    out.emit(json!({"ev":"tokens","pairs":toks}));
                }
                other => panic!("unknown kind {other}"),
            }
            out.emit(json!({"ev":"end"}));
            out.flush();
        }
    });
    out.flush();
    println!("{{\"scenarios\":{},\"events\":{}}}", scenarios.len(), out.events);
    cleanup_run_dir();
    std::process::exit(0);
}
