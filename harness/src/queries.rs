//! C05: data sets and queries chosen by the check are run on a real instance; the harness logs the data set as it
//! was written and every result, with values replaced by the order-preserving codes of the scenario, so that TLC can
//! compare them with the reference evaluation of QueryEval.tla.  The harness evaluates nothing itself.
use crate::common::*;
use crate::world::*;
use discret::{Configuration, Parameters};
use serde_json::{json, Map, Value};
use std::collections::HashMap;

/// the first version of the model: the fields with a default value are added by the second one, so that the rows
/// written before the update do not hold them
pub const MODEL0: &str = "q { A { u: Integer, s: String nullable, i: Integer nullable, f: Float nullable, b: Boolean nullable, \
    one: q.B nullable, many: [q.B] nullable, self: q.A nullable, req: q.B } \
    B { u: Integer, t: String nullable } }";
pub const MODEL: &str = "q { A { u: Integer, s: String nullable, i: Integer nullable, f: Float nullable, b: Boolean nullable, \
    one: q.B nullable, many: [q.B] nullable, self: q.A nullable, req: q.B, d: Integer default 2 } \
    B { u: Integer, t: String nullable, n: Integer default 2 } }";

fn short(e: String) -> String {
    e.chars().take(200).map(|c| if (' '..='~').contains(&c) && c != '"' && c != '\\' { c } else { '?' }).collect()
}

fn pjson(v: &Value) -> Result<Option<Parameters>, String> {
    match v {
        Value::Null => Ok(None),
        other => Parameters::from_json(&serde_json::to_string(other).unwrap()).map(Some).map_err(|e| e.to_string()),
    }
}

/// code of a raw value of field `f`
fn code(tables: &Value, f: &str, v: &Value) -> i64 {
    if v.is_null() {
        return 0;
    }
    match tables.get(f) {
        Some(t) => {
            let key = match v {
                Value::String(s) => s.clone(),
                Value::Bool(b) => b.to_string(),
                Value::Number(n) => match n.as_f64() {
                    Some(x) => format!("{:?}", x),
                    None => n.to_string(),
                },
                other => other.to_string(),
            };
            t.get(&key).and_then(|c| c.as_i64()).unwrap_or(99)
        }
        None => v.as_i64().unwrap_or(99),
    }
}

/// a result row with codes; `ast` tells which keys are sub-queries
fn decode_rows(tables: &Value, ast: &Value, rows: &Value) -> Value {
    let subs: HashMap<String, Value> = arr(ast, "subs").iter().map(|x| (x[0].as_str().unwrap().to_string(), x[1].clone())).collect();
    // alias -> (function, field)
    let aggs: HashMap<String, (String, String)> = ast["aggs"].as_array().map(|a| a.iter().map(|x| (x[0].as_str().unwrap().to_string(),
        (x[1].as_str().unwrap().to_string(), x[2].as_str().unwrap_or("").to_string()))).collect()).unwrap_or_default();
    let list: Vec<Value> = match rows {
        Value::Array(a) => a.clone(),
        Value::Null => vec![],
        obj => vec![obj.clone()],
    };
    Value::Array(
        list.iter()
            .map(|r| {
                let mut m = Map::new();
                if let Value::Object(o) = r {
                    for (k, v) in o {
                        match subs.get(k) {
                            Some(sq) => {
                                m.insert(k.clone(), decode_rows(tables, sq, v));
                            }
                            None => match aggs.get(k) {
                                Some((func, field)) => {
                                    let c = if v.is_null() {
                                        -1
                                    } else if func == "avg" {
                                        v.as_f64().map(|x| (x * 60.0).round() as i64).unwrap_or(99)
                                    } else if func == "count" || func == "sum" {
                                        v.as_f64().filter(|x| x.fract() == 0.0).map(|x| x as i64).unwrap_or(99)
                                    } else {
                                        code(tables, field, v)
                                    };
                                    m.insert(k.clone(), json!(c));
                                }
                                None => {
                                    m.insert(k.clone(), json!(code(tables, k, v)));
                                }
                            },
                        }
                    }
                }
                Value::Object(m)
            })
            .collect(),
    )
}

async fn run_query(peer: &Peer, text: &str, params: &Value, root: &str) -> Result<Value, String> {
    let p = pjson(params)?;
    let r = peer.db.query(text, p).await.map_err(|e| e.to_string())?;
    if std::env::var("DV_RAW").is_ok() {
        eprintln!("RAW {text} => {r}");
    }
    let v: Value = serde_json::from_str(&r).map_err(|e| e.to_string())?;
    Ok(v[root].clone())
}

pub fn main(args: &[String]) -> i32 {
    if args.len() < 2 {
        eprintln!("usage: dv queries <scenarios.ndjson> <trace.ndjson>");
        return 2;
    }
    let scenarios = read_scenarios(&args[0]);
    let mut out = TraceWriter::create(&args[1]);
    let rt = tokio::runtime::Builder::new_multi_thread().worker_threads(3).enable_all().build().unwrap();
    rt.block_on(async {
        let mut config = Configuration::default();
        config.parallelism = 2;
        for (n, sc) in scenarios.iter().enumerate() {
            out.emit(json!({"ev":"begin","sid":sc["sid"]}));
            set_clock(0, 10);
            let mut folder = run_dir();
            folder.push(format!("q{n}"));
            let peer = Peer::start_in("q", "u1", MODEL0, &config, folder).await.expect("instance");
            let room = create_open_room(&peer, &[peer.vkey.clone()]).await.expect("room");
            let rid = discret::verif_hooks::security::uid_encode(&room);
            let tables = &sc["tables"];
            // the data set, through mutate(): the rows flagged old before the model update, the others after it
            let mut ids: HashMap<i64, String> = HashMap::new();
            let mut setup = "ok".to_string();
            for phase in [true, false] {
                if !phase {
                    if let Err(e) = peer.db.update_data_model(MODEL).await {
                        setup = format!("err:model update:{}", short(e.to_string()));
                    }
                }
                for b in arr(&sc["data"], "B") {
                    if b["old"].as_bool().unwrap_or(false) != phase {
                        continue;
                    }
                    let mut p = json!({"room": rid, "u": b["u"], "t": b["t"]});
                    let text = if phase || b["n"].is_null() { "mutate { q.B { room_id:$room u:$u t:$t } }" } else { "mutate { q.B { room_id:$room u:$u t:$t n:$n } }" };
                    if !(phase || b["n"].is_null()) {
                        p["n"] = b["n"].clone();
                    }
                    match peer.db.mutate(text, pjson(&p).unwrap()).await {
                        Ok(r) => {
                            let v: Value = serde_json::from_str(&r).unwrap_or(Value::Null);
                            ids.insert(i(b, "id"), v["q.B"]["id"].as_str().unwrap_or("").to_string());
                        }
                        Err(e) => setup = format!("err:{}", short(e.to_string())),
                    }
                }
                for a in arr(&sc["data"], "A") {
                    if a["old"].as_bool().unwrap_or(false) != phase {
                        continue;
                    }
                    let mut fields = String::from("room_id:$room u:$u s:$s i:$i f:$f b:$b ");
                    let mut p = json!({"room": rid, "u": a["u"], "s": a["s"], "i": a["i"], "f": a["f"], "b": a["b"]});
                    if !phase && !a["d"].is_null() {
                        fields.push_str("d:$d ");
                        p["d"] = a["d"].clone();
                    }
                    let refs = |k: &str| -> Vec<String> { arr(a, k).iter().map(|x| ids[&x.as_i64().unwrap()].clone()).collect() };
                    let req = refs("req");
                    fields.push_str(&format!("req: {{ id:\"{}\" }} ", req[0]));
                    if let Some(o) = refs("one").first() {
                        fields.push_str(&format!("one: {{ id:\"{}\" }} ", o));
                    }
                    let many = refs("many");
                    if !many.is_empty() {
                        fields.push_str(&format!("many: [ {} ] ", many.iter().map(|m| format!("{{ id:\"{}\" }}", m)).collect::<Vec<_>>().join(", ")));
                    }
                    match peer.db.mutate(&format!("mutate {{ q.A {{ {fields} }} }}"), pjson(&p).unwrap()).await {
                        Ok(r) => {
                            let v: Value = serde_json::from_str(&r).unwrap_or(Value::Null);
                            ids.insert(i(a, "id"), v["q.A"]["id"].as_str().unwrap_or("").to_string());
                        }
                        Err(e) => setup = format!("err:{}", short(e.to_string())),
                    }
                }
            }
            for a in arr(&sc["data"], "A") {
                if let Some(o) = arr(a, "self").first() {
                    let p = json!({"id": ids[&i(a, "id")], "o": ids[&o.as_i64().unwrap()]});
                    if let Err(e) = peer.db.mutate("mutate { q.A { id:$id self: { id:$o } } }", pjson(&p).unwrap()).await {
                        setup = format!("err:{}", short(e.to_string()));
                    }
                }
            }
            out.emit(json!({"ev":"data","setup":setup,"data":sc["coded"]}));
            for q in arr(sc, "queries") {
                let ast = &q["ast"];
                let root = format!("q.{}", s(ast, "ent"));
                if s(q, "kind") == "query" {
                    match run_query(&peer, &s(q, "text"), &q["params"], &root).await {
                        Ok(rows) => out.emit(json!({"ev":"query","qid":q["qid"],"ast":ast,"res":"ok","rows":decode_rows(tables, ast, &rows)})),
                        Err(e) => out.emit(json!({"ev":"query","qid":q["qid"],"ast":ast,"res":format!("err:{}", short(e)),"rows":[]})),
                    }
                } else {
                    // paging: first page, then after(<keys of the last row>) until a page is empty
                    let keys: Vec<String> = arr(q, "keys").iter().map(|k| k.as_str().unwrap().to_string()).collect();
                    let mut pages: Vec<Value> = Vec::new();
                    let mut res = "ok".to_string();
                    let mut last: Option<Value> = None;
                    for _ in 0..40 {
                        let (text, params) = match &last {
                            None => (s(q, "text"), q["params"].clone()),
                            Some(row) => {
                                let mut p = q["params"].as_object().cloned().unwrap_or_default();
                                for (j, k) in keys.iter().enumerate() {
                                    p.insert(format!("k{j}"), row[k].clone());
                                }
                                (s(q, "text_next"), Value::Object(p))
                            }
                        };
                        match run_query(&peer, &text, &params, &root).await {
                            Ok(rows) => {
                                let list = rows.as_array().cloned().unwrap_or_default();
                                if list.is_empty() {
                                    break;
                                }
                                last = list.last().cloned();
                                pages.push(decode_rows(tables, ast, &rows));
                            }
                            Err(e) => {
                                res = format!("err:{}", short(e));
                                break;
                            }
                        }
                    }
                    out.emit(json!({"ev":"paginate","qid":q["qid"],"ast":ast,"res":res,"pages":pages}));
                }
            }
            out.emit(json!({"ev":"end"}));
            out.flush();
        }
    });
    out.flush();
    println!("{{\"scenarios\":{},\"events\":{}}}", scenarios.len(), out.events);
    cleanup_run_dir();
    std::process::exit(0);
}
