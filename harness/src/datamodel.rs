//! C15: sequences of data model versions applied to the parser alone (many times: the iteration order of its
//! hash maps differs between instances), to a running instance holding data, and at restart.
use crate::common::*;
use crate::world::*;
use discret::verif_hooks as vh;
use discret::Configuration;
use serde_json::{json, Map, Value};
use vh::database::query_language::data_model_parser::DataModel;

/// storage identifiers of the entities and fields of namespace v, from the serialised model
fn ids_of(model_json: &str) -> Value {
    let v: Value = serde_json::from_str(model_json).unwrap_or(Value::Null);
    let mut out = Map::new();
    collect(&v, &mut out);
    Value::Object(out)
}
fn collect(v: &Value, out: &mut Map<String, Value>) {
    match v {
        Value::Object(m) => {
            if let (Some(Value::String(n)), Some(Value::String(s)), Some(Value::Object(fields))) = (m.get("name"), m.get("short_name"), m.get("fields")) {
                if !s.starts_with("0.") && !n.starts_with("sys") {
                    let mut fm = Map::new();
                    for (fname, f) in fields {
                        if let Some(fs) = f.get("short_name").and_then(|x| x.as_str()) {
                            fm.insert(fname.clone(), json!(fs.parse::<i64>().unwrap_or(-1)));
                        }
                    }
                    out.insert(n.strip_prefix("v.").unwrap_or(n).to_string(), json!({"id": s, "fields": fm}));
                }
            }
            for (_, x) in m {
                collect(x, out);
            }
        }
        Value::Array(a) => {
            for x in a {
                collect(x, out);
            }
        }
        _ => {}
    }
}

pub fn main(args: &[String]) -> i32 {
    if args.len() < 2 {
        eprintln!("usage: dv datamodel <scenarios.ndjson> <trace.ndjson>");
        return 2;
    }
    let scenarios = read_scenarios(&args[0]);
    let mut out = TraceWriter::create(&args[1]);
    let rt = tokio::runtime::Builder::new_multi_thread().worker_threads(3).enable_all().build().unwrap();
    rt.block_on(async {
        let mut config = Configuration::default();
        config.parallelism = 2;
        for (n, sc) in scenarios.iter().enumerate() {
            out.emit(json!({"ev":"begin","sid":sc["sid"]}));
            let texts: Vec<String> = arr(sc, "versions").iter().map(|t| t.as_str().unwrap().to_string()).collect();
            let mut folder = run_dir();
            folder.push(format!("dm{n}"));
            set_clock(0, 10);
            let peer = match Peer::start_in("dm", "u1", &texts[0], &config, folder.clone()).await {
                Ok(p) => p,
                Err(e) => {
                    out.emit(json!({"ev":"start","res":"err","msg":e}));
                    out.emit(json!({"ev":"end"}));
                    continue;
                }
            };
            let room = create_open_room(&peer, &[peer.vkey.clone()]).await.expect("room");
            let rid = vh::security::uid_encode(&room);
            let _ = peer.db.mutate("mutate { v.A { room_id:$room name:\"a\" n:1 } }", params(&[("room", rid.clone())])).await;
            let _ = peer.db.mutate("mutate { v.B { room_id:$room name:\"b\" } }", params(&[("room", rid.clone())])).await;
            let mut accepted_text = texts[0].clone();
            let mut accepted_json = peer.db.datamodel().await.unwrap_or_default();
            out.emit(json!({"ev":"start","res":"ok","abs":sc["abstract"][0],"ids":ids_of(&accepted_json)}));
            for k in 1..texts.len() {
                let text = &texts[k];
                // the parser alone, many instances
                let mut outcomes: Vec<Value> = Vec::new();
                let mut refused_changed = false;
                for _ in 0..16 {
                    let mut dm: DataModel = serde_json::from_str(&accepted_json).expect("stored model");
                    let before = serde_json::to_value(&dm).unwrap();
                    let o = match dm.update(text) {
                        Ok(_) => json!({"res":"ok","ids":ids_of(&serde_json::to_string(&dm).unwrap())}),
                        Err(_) => {
                            if serde_json::to_value(&dm).unwrap() != before {
                                refused_changed = true;
                            }
                            json!({"res":"err"})
                        }
                    };
                    if !outcomes.contains(&o) {
                        outcomes.push(o);
                    }
                }
                // the running instance holding data
                let before_live = peer.db.datamodel().await.unwrap_or_default();
                let live = match peer.db.update_data_model(text).await {
                    Ok(m) => {
                        accepted_text = text.clone();
                        accepted_json = m.clone();
                        json!({"res":"ok","ids":ids_of(&m)})
                    }
                    Err(_) => {
                        let after = peer.db.datamodel().await.unwrap_or_default();
                        let same = serde_json::from_str::<Value>(&after).ok() == serde_json::from_str::<Value>(&before_live).ok();
                        if !same && std::env::var("DV_DEBUG").is_ok() {
                            eprintln!("BEFORE {}\nAFTER {}", before_live, after);
                        }
                        json!({"res":"err","unchanged":same})
                    }
                };
                let probe_a = peer.db.query("query { v.A { name n } }", None).await.map(|r| serde_json::from_str::<Value>(&r).unwrap_or(Value::Null)["v.A"].clone()).unwrap_or(json!("ERR"));
                let probe_b = peer.db.query("query { v.B { name } }", None).await.map(|r| serde_json::from_str::<Value>(&r).unwrap_or(Value::Null)["v.B"].clone()).unwrap_or(json!("ERR"));
                let ok_probe = probe_a == json!([{"name":"a","n":1}]) && probe_b == json!([{"name":"b"}]);
                out.emit(json!({"ev":"version","k":k,"abs":sc["abstract"][k],"pure":outcomes,"pure_refused_changed":refused_changed,"live":live,"old_rows_ok":ok_probe}));
            }
            // restart with the last accepted text on the same folder
            let restart = match Peer::start_in("dm-again", "u1", &accepted_text, &config, folder.clone()).await {
                Ok(p) => {
                    let m = p.db.datamodel().await.unwrap_or_default();
                    json!({"res":"ok","ids":ids_of(&m), "same": ids_of(&m) == ids_of(&accepted_json)})
                }
                Err(e) => json!({"res":"err","msg":e.chars().take(80).collect::<String>()}),
            };
            out.emit(json!({"ev":"restart","r":restart}));
            out.emit(json!({"ev":"end"}));
            out.flush();
        }
    });
    out.flush();
    println!("{{\"scenarios\":{},\"events\":{}}}", scenarios.len(), out.events);
    cleanup_run_dir();
    std::process::exit(0);
}
