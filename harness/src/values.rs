//! C04: values chosen by the specification (sequences of character classes, instantiated by the check) are written
//! through the real mutate(), as a parameter or as a literal, read back by a query of the room, and used in an
//! equality filter.  Values are logged in a form that TLC can compare (hex of the UTF-8 bytes, bits of a float).
use crate::common::*;
use crate::world::*;
use discret::verif_hooks as vh;
use discret::{Configuration, Parameters};
use serde_json::{json, Map, Value};

fn hex(b: &[u8]) -> String {
    b.iter().map(|x| format!("{:02x}", x)).collect()
}

/// encoding of a value of a field of type `ty` as it is written (a JSON scalar; Json fields are given as text)
fn enc_written(ty: &str, v: &Value) -> String {
    if v.is_null() {
        return "null".to_string();
    }
    match ty {
        "Integer" => format!("i:{}", v.as_i64().map(|x| x.to_string()).unwrap_or_else(|| format!("?{v}"))),
        "Float" => format!("f:{:016x}", v.as_f64().map(|x| x.to_bits()).unwrap_or(u64::MAX)),
        "Boolean" => format!("b:{}", v.as_bool().map(|x| x.to_string()).unwrap_or_else(|| format!("?{v}"))),
        "Json" => match serde_json::from_str::<Value>(v.as_str().unwrap_or("")) {
            Ok(Value::Null) => "null".to_string(),
            Ok(j) => format!("j:{}", hex(serde_json::to_string(&j).unwrap().as_bytes())),
            Err(_) => format!("?{v}"),
        },
        _ => format!("s:{}", hex(v.as_str().unwrap_or("?").as_bytes())),
    }
}
/// encoding of a value as it is returned inside the JSON of a query
fn enc_read(ty: &str, v: &Value) -> String {
    if v.is_null() {
        return "null".to_string();
    }
    match ty {
        "Integer" => match v.as_i64() {
            Some(x) => format!("i:{x}"),
            None => format!("?{v}"),
        },
        "Float" => match v.as_f64() {
            Some(x) => format!("f:{:016x}", x.to_bits()),
            None => format!("?{v}"),
        },
        "Boolean" => match v.as_bool() {
            Some(x) => format!("b:{x}"),
            None => format!("?{v}"),
        },
        "Json" => format!("j:{}", hex(serde_json::to_string(v).unwrap().as_bytes())),
        _ => match v.as_str() {
            Some(x) => format!("s:{}", hex(x.as_bytes())),
            None => format!("?{v}"),
        },
    }
}

fn pjson(pairs: &[(&str, Value)]) -> Result<Option<Parameters>, String> {
    let mut m = Map::new();
    for (k, v) in pairs {
        m.insert(k.to_string(), v.clone());
    }
    Parameters::from_json(&serde_json::to_string(&Value::Object(m)).unwrap()).map(Some).map_err(|e| e.to_string())
}

fn short(e: String) -> String {
    e.chars().take(160).collect()
}

async fn rows_of(peer: &Peer, ent: &str, ty: &str, rid: &str, field: &str) -> (String, Vec<Value>) {
    let q = format!("query {{ v.{ent}(room_id=$room, order_by(k asc)) {{ k {field} o }} }}");
    match peer.db.query(&q, params(&[("room", rid.to_string())])).await {
        Ok(r) => {
            let v: Value = serde_json::from_str(&r).unwrap_or(Value::Null);
            let rows = v[format!("v.{ent}")].as_array().cloned().unwrap_or_default();
            ("ok".to_string(), rows.iter().map(|x| json!({"k": x["k"], "v": enc_read(ty, &x[field]), "o": enc_read("String", &x["o"])})).collect())
        }
        Err(e) => (format!("err:{}", short(e.to_string())), vec![]),
    }
}

async fn ks_of(peer: &Peer, q: &str, p: Result<Option<Parameters>, String>, ent: &str) -> (String, Vec<Value>) {
    let p = match p {
        Ok(p) => p,
        Err(e) => return (format!("err:param:{}", short(e)), vec![]),
    };
    match peer.db.query(q, p).await {
        Ok(r) => {
            let v: Value = serde_json::from_str(&r).unwrap_or(Value::Null);
            let rows = v[format!("v.{ent}")].as_array().cloned().unwrap_or_default();
            ("ok".to_string(), rows.iter().map(|x| x["k"].clone()).collect())
        }
        Err(e) => (format!("err:{}", short(e.to_string())), vec![]),
    }
}

pub fn main(args: &[String]) -> i32 {
    if args.len() < 2 {
        eprintln!("usage: dv values <scenarios.ndjson> <trace.ndjson>");
        return 2;
    }
    let scenarios = read_scenarios(&args[0]);
    let mut out = TraceWriter::create(&args[1]);
    let rt = tokio::runtime::Builder::new_multi_thread().worker_threads(3).enable_all().build().unwrap();
    rt.block_on(async {
        let mut config = Configuration::default();
        config.parallelism = 2;
        let mut current: Option<(String, Peer)> = None;
        for (n, sc) in scenarios.iter().enumerate() {
            out.emit(json!({"ev":"begin","sid":sc["sid"]}));
            let model = s(sc, "model");
            if current.as_ref().map(|c| c.0 != model).unwrap_or(true) {
                set_clock(0, 10);
                let mut folder = run_dir();
                folder.push(format!("val{n}"));
                match Peer::start_in("val", "u1", &model, &config, folder).await {
                    Ok(p) => current = Some((model.clone(), p)),
                    Err(e) => {
                        out.emit(json!({"ev":"start","res":format!("err:{}", short(e))}));
                        out.emit(json!({"ev":"end"}));
                        current = None;
                        continue;
                    }
                }
            }
            let peer = &current.as_ref().unwrap().1;
            out.emit(json!({"ev":"start","res":"ok"}));
            let mut dead = false;
            for t in arr(sc, "tests") {
                let room = match create_open_room(peer, &[peer.vkey.clone()]).await {
                    Ok(r) => r,
                    Err(e) => {
                        // the instance stopped answering: reported as an error of the model, a new instance is started for the next scenario
                        out.emit(json!({"ev":"start","res":format!("err:instance does not answer after test {}: {}", t["tid"], short(e))}));
                        dead = true;
                        break;
                    }
                };
                let rid = vh::security::uid_encode(&room);
                let kind = s(t, "kind");
                let ty = s(t, "type");
                let ent = s(t, "ent");
                if kind == "value" {
                    // two witness rows, then the row under test
                    let w = peer.db.mutate(&format!("mutate {{ v.{ent} {{ room_id:$room k:1 v:$w o:\"w1\" }} }}"), pjson(&[("room", json!(rid)), ("w", t["wit"].clone())]).unwrap()).await;
                    let w2 = peer.db.mutate(&format!("mutate {{ v.{ent} {{ room_id:$room k:2 v:null o:\"w2\" }} }}"), params(&[("room", rid.clone())])).await;
                    let setup = if w.is_ok() && w2.is_ok() { "ok".to_string() } else { format!("err:{:?} {:?}", w.err().map(|e| e.to_string()), w2.err().map(|e| e.to_string())) };
                    let via = s(t, "via");
                    let (wq, fq) = if via == "param" {
                        (
                            format!("mutate {{ v.{ent} {{ room_id:$room k:3 v:$p o:\"x\" }} }}"),
                            format!("query {{ v.{ent}(room_id=$room, v=$p, order_by(k asc)) {{ k }} }}"),
                        )
                    } else {
                        let lit = s(t, "lit");
                        (
                            format!("mutate {{ v.{ent} {{ room_id:$room k:3 v:{lit} o:\"x\" }} }}"),
                            format!("query {{ v.{ent}(room_id=$room, v={lit}, order_by(k asc)) {{ k }} }}"),
                        )
                    };
                    let mk = || if via == "param" { pjson(&[("room", json!(rid)), ("p", t["val"].clone())]) } else { pjson(&[("room", json!(rid))]) };
                    let write = match mk() {
                        Ok(p) => match peer.db.mutate(&wq, p).await {
                            Ok(_) => "ok".to_string(),
                            Err(e) => format!("err:{}", short(e.to_string())),
                        },
                        Err(e) => format!("err:param:{}", short(e)),
                    };
                    let (read, rows) = rows_of(peer, &ent, &ty, &rid, "v").await;
                    let (filter, ks) = if ty == "Json" { ("n/a".to_string(), vec![]) } else { ks_of(peer, &fq, mk(), &ent).await };
                    // a literal spelled like the name of the variable, next to the variable
                    let (filter2, ks2) = if ty == "Json" || via != "param" {
                        ("n/a".to_string(), vec![])
                    } else {
                        ks_of(peer, &format!("query {{ v.{ent}(room_id=$room, o != \"p\", v=$p, order_by(k asc)) {{ k }} }}"), mk(), &ent).await
                    };
                    out.emit(json!({"ev":"value","filter2":filter2,"ks2":ks2,"tid":t["tid"],"type":ty,"via":via,"cls":t["cls"],"form":t["form"],"want":enc_written(&ty, &t["val"]),"wit":enc_written(&ty, &t["wit"]),
                        "setup":setup,"write":write,"read":read,"rows":rows,"filter":filter,"ks":ks}));
                } else {
                    // a field with a default value: one row that does not set it, one that sets something else
                    let w = peer.db.mutate("mutate { v.Dft { room_id:$room k:1 o:\"w1\" } }", params(&[("room", rid.clone())])).await;
                    let w2 = peer.db.mutate("mutate { v.Dft { room_id:$room k:2 d:$o o:\"w2\" } }", pjson(&[("room", json!(rid)), ("o", t["other"].clone())]).unwrap()).await;
                    let setup = if w.is_ok() && w2.is_ok() { "ok".to_string() } else { format!("err:{:?} {:?}", w.err().map(|e| e.to_string()), w2.err().map(|e| e.to_string())) };
                    let (read, rows) = rows_of(peer, "Dft", &ty, &rid, "d").await;
                    let pd = || pjson(&[("room", json!(rid)), ("p", t["val"].clone())]);
                    let po = || pjson(&[("room", json!(rid)), ("p", t["other"].clone())]);
                    if ty == "Json" {
                        out.emit(json!({"ev":"default","tid":t["tid"],"type":ty,"cls":t["cls"],"form":t["form"],"want":enc_written(&ty, &t["val"]),"other":enc_written(&ty, &t["other"]),
                            "setup":setup,"read":read,"rows":rows,"filters":[]}));
                        continue;
                    }
                    let (f1, ks1) = ks_of(peer, "query { v.Dft(room_id=$room, d=$p, order_by(k asc)) { k } }", pd(), "Dft").await;
                    let (f2, ks2) = ks_of(peer, "query { v.Dft(room_id=$room, d=$p, order_by(k asc)) { k d } }", pd(), "Dft").await;
                    let (f3, ks3) = ks_of(peer, "query { v.Dft(room_id=$room, d=$p, order_by(k asc)) { k } }", po(), "Dft").await;
                    let (f4, ks4) = ks_of(peer, "query { v.Dft(room_id=$room, d=$p, order_by(k asc)) { k d } }", po(), "Dft").await;
                    out.emit(json!({"ev":"default","tid":t["tid"],"type":ty,"cls":t["cls"],"form":t["form"],"want":enc_written(&ty, &t["val"]),"other":enc_written(&ty, &t["other"]),
                        "setup":setup,"read":read,"rows":rows,
                        "filters":[{"on":"default","sel":false,"res":f1,"ks":ks1},{"on":"default","sel":true,"res":f2,"ks":ks2},
                                   {"on":"other","sel":false,"res":f3,"ks":ks3},{"on":"other","sel":true,"res":f4,"ks":ks4}]}));
                }
            }
            out.emit(json!({"ev":"end"}));
            out.flush();
            if dead {
                current = None;
            }
        }
    });
    out.flush();
    println!("{{\"scenarios\":{},\"events\":{}}}", scenarios.len(), out.events);
    cleanup_run_dir();
    std::process::exit(0);
}
