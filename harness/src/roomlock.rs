//! C20: replays message sequences on the real RoomLockService.
//!
//! scenario: {"sid":n,"max":k,"steps":[{"op":"req","c":"c1","rooms":["r1","r2"]},{"op":"unlock","r":"r1"},{"op":"drop","c":"c1"}]}
//! trace   : begin / req / unlock / drop (each with the grants observed after the message was handled) / end
//!
//! The service is a single actor whose handling of one message never waits on anything, so on a
//! current-thread runtime a few yields after `send` are enough for the message to be fully handled.
use crate::common::*;
use discret::verif_hooks::security::Uid;
use discret::verif_hooks::synchronisation::room_locking_service::RoomLockService;
use serde_json::{json, Value};
use std::collections::{HashMap, VecDeque};
use tokio::sync::mpsc;

fn uid_of(name: &str) -> Uid {
    let mut u: Uid = Default::default();
    let b = name.as_bytes();
    for (i, x) in b.iter().enumerate().take(u.len()) {
        u[i] = *x;
    }
    u
}
fn circuit_of(name: &str) -> [u8; 32] {
    let mut u = [0u8; 32];
    for (i, x) in name.as_bytes().iter().enumerate().take(32) {
        u[i] = *x;
    }
    u
}

async fn settle() {
    for _ in 0..8 {
        tokio::task::yield_now().await;
    }
}

struct ConnSide {
    sender: mpsc::UnboundedSender<Uid>,
    receiver: Option<mpsc::UnboundedReceiver<Uid>>,
}

async fn run_scenario(sc: &Value, out: &mut TraceWriter) {
    let max = i(sc, "max") as usize;
    let service = RoomLockService::start(max);
    let mut conns: HashMap<String, ConnSide> = HashMap::new();
    let mut names: HashMap<Uid, String> = HashMap::new();
    out.emit(json!({"ev":"begin","sid":sc["sid"],"max":max}));
    for step in arr(sc, "steps") {
        let op = s(step, "op");
        let mut ev = step.clone();
        ev["ev"] = json!(op);
        ev.as_object_mut().unwrap().remove("op");
        match op.as_str() {
            "req" => {
                let c = s(step, "c");
                let entry = conns.entry(c.clone()).or_insert_with(|| {
                    let (sender, receiver) = mpsc::unbounded_channel::<Uid>();
                    ConnSide { sender, receiver: Some(receiver) }
                });
                let mut rooms = VecDeque::new();
                for r in arr(step, "rooms") {
                    let name = r.as_str().unwrap().to_string();
                    let u = uid_of(&name);
                    names.insert(u, name);
                    rooms.push_back(u);
                }
                service.request_locks(circuit_of(&c), rooms, entry.sender.clone()).await;
            }
            "unlock" => {
                let r = s(step, "r");
                let u = uid_of(&r);
                names.insert(u, r);
                service.unlock(u).await;
            }
            "drop" => {
                let c = s(step, "c");
                let entry = conns.entry(c.clone()).or_insert_with(|| {
                    let (sender, receiver) = mpsc::unbounded_channel::<Uid>();
                    ConnSide { sender, receiver: Some(receiver) }
                });
                entry.receiver = None;
            }
            other => panic!("unknown op {other}"),
        }
        settle().await;
        let mut grants = Vec::new();
        let mut keys: Vec<&String> = conns.keys().collect();
        keys.sort();
        let keys: Vec<String> = keys.into_iter().cloned().collect();
        for c in keys {
            if let Some(rcv) = conns.get_mut(&c).unwrap().receiver.as_mut() {
                while let Ok(room) = rcv.try_recv() {
                    let rn = names.get(&room).cloned().unwrap_or_else(|| "unknown".to_string());
                    grants.push(json!({"c": c, "r": rn}));
                }
            }
        }
        ev["grants"] = Value::Array(grants);
        out.emit(ev);
    }
    out.emit(json!({"ev":"end"}));
}

pub fn main(args: &[String]) -> i32 {
    if args.len() < 2 {
        eprintln!("usage: dv roomlock <scenarios.ndjson> <trace.ndjson>");
        return 2;
    }
    let scenarios = read_scenarios(&args[0]);
    let mut out = TraceWriter::create(&args[1]);
    let rt = tokio::runtime::Builder::new_current_thread().enable_all().build().unwrap();
    rt.block_on(async {
        for sc in &scenarios {
            run_scenario(sc, &mut out).await;
        }
    });
    out.flush();
    println!("{{\"scenarios\":{},\"events\":{}}}", scenarios.len(), out.events);
    0
}
