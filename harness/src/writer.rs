//! C13: fault enumeration on the real batch writer.
//!
//! `dv writer <scenarios> <trace>`  (parent) runs each scenario in a child process `dv writer-child`, which
//! prepares a data folder, arms one fault (abort the process / make a write fail at the k-th hit of a point),
//! issues the workload and prints one line per acknowledgement it receives.  The parent then opens the same
//! folder and logs the acknowledgements and the projection of what is stored.
use crate::common::*;
use crate::world::*;
use discret::verif_hooks as vh;
use discret::Configuration;
use vh::security::Uid;
use serde_json::{json, Value};
use std::collections::HashMap;
use std::io::Write;

fn config() -> Configuration {
    let mut c = Configuration::default();
    c.parallelism = 2;
    c
}

async fn store_json(peer: &Peer, shorts: Vec<String>, long: &HashMap<String, String>) -> Value {
    let st = read_store_all(peer, shorts).await;
    let name_of = |j: &Option<String>| -> String {
        if let Some(s) = j {
            if let Ok(Value::Object(m)) = serde_json::from_str::<Value>(s) {
                let mut keys: Vec<&String> = m.keys().collect();
                keys.sort();
                for k in keys {
                    if let Some(x) = m[k].as_str() {
                        return x.to_string();
                    }
                }
            }
        }
        String::new()
    };
    let mut nodes = Vec::new();
    let mut ids: HashMap<Uid, String> = HashMap::new();
    for n in &st.nodes {
        let text = name_of(&n.json);
        ids.insert(n.id, text.clone());
        nodes.push(json!({"text": text, "ent": long.get(&n.entity).cloned().unwrap_or_default(), "day": (n.mdate - BASE_DAY).div_euclid(DAY_MS), "s": sig_int(&n.sig)}));
    }
    let edges: Vec<Value> = st.edges.iter().map(|e| json!({"src": ids.get(&e.src).cloned().unwrap_or_default(), "dst": ids.get(&e.dest).cloned().unwrap_or_default()})).collect();
    let ntombs: Vec<Value> = st.ntombs.iter().map(|t| json!({"ent": long.get(&t.entity).cloned().unwrap_or_default(), "day": (t.ddate - BASE_DAY).div_euclid(DAY_MS), "s": sig_int(&t.sig)})).collect();
    let etombs: Vec<Value> = st.etombs.iter().map(|t| json!({"ent": long.get(&t.src_entity).cloned().unwrap_or_default(), "day": (t.ddate - BASE_DAY).div_euclid(DAY_MS), "s": sig_int(&t.sig)})).collect();
    let log: Vec<Value> = st.logs.iter().map(|l| json!({"ent": long.get(&l.entity).cloned().unwrap_or_default(), "day": (l.date - BASE_DAY).div_euclid(DAY_MS), "n": l.n, "dirty": l.dirty,
        "dh": l.dh.as_ref().map(|h| hex8(h)).unwrap_or("none".to_string())})).collect();
    json!({"nodes": nodes, "edges": edges, "ntombs": ntombs, "etombs": etombs, "log": log})
}

/// the whole store for the application entities (one room per folder in these scenarios)
async fn read_store_all(peer: &Peer, shorts: Vec<String>) -> RawStore {
    let rooms: Vec<Uid> = peer
        .sql(|conn| {
            let mut st = conn.prepare("SELECT DISTINCT room_id FROM _daily_log").unwrap();
            let mut rows = st.query([]).unwrap();
            let mut v: Vec<Uid> = Vec::new();
            while let Some(r) = rows.next().unwrap() {
                v.push(r.get(0).unwrap());
            }
            let mut st = conn.prepare("SELECT DISTINCT room_id FROM _node WHERE room_id IS NOT NULL").unwrap();
            let mut rows = st.query([]).unwrap();
            while let Some(r) = rows.next().unwrap() {
                v.push(r.get(0).unwrap());
            }
            v
        })
        .await;
    let rows: Vec<Uid> = peer
        .sql(|conn| {
            let mut st = conn.prepare("SELECT DISTINCT src FROM _edge").unwrap();
            let mut rows = st.query([]).unwrap();
            let mut v: Vec<Uid> = Vec::new();
            while let Some(r) = rows.next().unwrap() {
                v.push(r.get(0).unwrap());
            }
            v
        })
        .await;
    read_store(peer, shorts, rooms, rows).await
}

fn ack(line: Value) {
    let mut o = std::io::stdout().lock();
    let _ = writeln!(o, "ACK {}", line);
    let _ = o.flush();
}

/// child: prepare, arm the fault, run the workload
pub fn child(args: &[String]) -> i32 {
    let folder: std::path::PathBuf = args[0].clone().into();
    let sc: Value = serde_json::from_str(&args[1]).expect("scenario json");
    let rt = tokio::runtime::Builder::new_multi_thread().worker_threads(3).enable_all().build().unwrap();
    rt.block_on(async {
        set_clock(0, 10);
        let peer = Peer::start_in("w", "u1", MODEL, &config(), folder).await.expect("start");
        let room = create_open_room(&peer, &[peer.vkey.clone()]).await.expect("room");
        let rid = vh::security::uid_encode(&room);
        // base rows b1 b2 b3 (b1 -> b2 reference), on day 0
        let mut base: HashMap<String, String> = HashMap::new();
        for (i, b) in ["b1", "b2", "b3"].iter().enumerate() {
            set_clock(0, 20 + i as i64);
            let r = peer.db.mutate("mutate { v.A { room_id:$room name:$text } }", params(&[("room", rid.clone()), ("text", b.to_string())])).await.expect("base row");
            base.insert(b.to_string(), vh::security::uid_encode(&id_of_result(&r, "v.A").unwrap()));
        }
        set_clock(0, 30);
        peer.db.mutate("mutate { v.A { id:$id ra:[{id:$to}] } }", params(&[("id", base["b1"].clone()), ("to", base["b2"].clone())])).await.expect("base ref");
        peer.recompute().await;
        ack(json!({"req": "READY"}));
        // the workload happens on day 1
        set_clock(1, 5);
        if let Some(f) = sc.get("fault") {
            let kind = if s(f, "kind") == "abort" { vh::FaultKind::Abort } else { vh::FaultKind::Error };
            vh::set_fault(&s(f, "point"), i(f, "hit") as u64, kind);
        }
        let reqs = arr(&sc, "workload").clone();
        let concurrent = sc.get("concurrent").and_then(|c| c.as_bool()).unwrap_or(false);
        let shorts: std::collections::BTreeMap<String, String> = short_names(&peer).await;
        let run_one = |rq: Value| {
            let shorts = shorts.clone();
            let peer_db = peer.db.clone();
            let rid = rid.clone();
            let base = base.clone();
            async move {
                let name = s(&rq, "req");
                let r: Result<(), String> = match name.as_str() {
                    // two rows created by one mutation
                    "create2" => peer_db.mutate("mutate { P: v.A { room_id:$room name:$t1 } Q: v.B { room_id:$room name:$t2 } }",
                        params(&[("room", rid.clone()), ("t1", s(&rq, "t1")), ("t2", s(&rq, "t2"))])).await.map(|_| ()).map_err(|e| e.to_string()),
                    "update" => peer_db.mutate("mutate { v.A { id:$id name:$text } }", params(&[("id", base[&s(&rq, "row")].clone()), ("text", s(&rq, "text"))])).await.map(|_| ()).map_err(|e| e.to_string()),
                    "delete" => peer_db.delete("delete { v.A { $id } }", params(&[("id", base[&s(&rq, "row")].clone())])).await.map(|_| ()).map_err(|e| e.to_string()),
                    "unref" => peer_db.delete("delete { v.A { $id ra[$to] } }", params(&[("id", base["b1"].clone()), ("to", base["b2"].clone())])).await.map(|_| ()).map_err(|e| e.to_string()),
                    "room" => peer_db.mutate("mutate { sys.Room { admin: [{verif_key:$k}] authorisations:[{ name:\"x\" rights:[{entity:\"*\" mutate_self:true mutate_all:true}] }] } }",
                        params(&[("k", s(&rq, "key"))])).await.map(|_| ()).map_err(|e| e.to_string()),
                    // a synchronised batch: two rows signed by an authorised author, through the ingestion entry points
                    "ingest2" => {
                        let sk = crate::scen::signing_key_of("u1");
                        let now = vh::date_utils::now();
                        let mut set = std::collections::HashSet::new();
                        let mut nodes = Vec::new();
                        for (ent, text) in [("v.A", s(&rq, "t1")), ("v.B", s(&rq, "t2"))] {
                            let mut n = vh::database::node::Node { id: vh::security::new_uid(), room_id: Some(room), cdate: now, mdate: now, _entity: shorts[ent].clone(),
                                _json: Some(format!("{{\"32\":\"{}\"}}", text)), _binary: None, verifying_key: vec![], _signature: vec![], _local_id: None };
                            n.sign(&sk).expect("sign");
                            set.insert(vh::database::node::NodeIdentifier { id: n.id, mdate: n.mdate, signature: n._signature.clone() });
                            nodes.push(n);
                        }
                        match peer_db.filter_existing_node(room, set).await {
                            Ok(filtered) => {
                                let mut ntis = Vec::new();
                                for mut nti in filtered {
                                    if let Some(n) = nodes.iter().find(|n| n.id == nti.id) {
                                        nti.node = Some(n.clone());
                                    }
                                    ntis.push(nti);
                                }
                                peer_db.add_nodes(room, ntis).await.map(|_| ()).map_err(|e| e.to_string())
                            }
                            Err(e) => Err(e.to_string()),
                        }
                    }
                    // a synchronised deletion: the deletion record of a base row, as a peer would send it
                    "ingestdel" => {
                        let sk = crate::scen::signing_key_of("u1");
                        let idb = vh::security::uid_decode(&base[&s(&rq, "row")]).expect("uid");
                        let mut rcv = peer_db.get_nodes(room, vec![idb]).await;
                        match rcv.recv().await.unwrap_or(Ok(vec![])) {
                            Ok(ns) if !ns.is_empty() => {
                                let entry = vh::database::node::NodeDeletionEntry::build(room, &ns[0], vh::date_utils::now(), &sk);
                                peer_db.delete_nodes(vec![entry]).await.map_err(|e| e.to_string())
                            }
                            Ok(_) => Err("row not found".to_string()),
                            Err(e) => Err(e.to_string()),
                        }
                    }
                    "compute" => { peer_db.compute_daily_log().await; Ok(()) }
                    other => Err(format!("unknown request {other}")),
                };
                // acknowledged => visible to every later query, on whichever reader connection it runs
                let mut visible = json!("n/a");
                if r.is_ok() && !concurrent {
                    let mut seen_all = true;
                    for _ in 0..3 {
                        let a = peer_db.query("query { v.A { name } }", None).await.unwrap_or_default();
                        let b = peer_db.query("query { v.B { name } }", None).await.unwrap_or_default();
                        let has = |t: &str| a.contains(&format!("\"{}\"", t)) || b.contains(&format!("\"{}\"", t));
                        let ok = match name.as_str() {
                            "create2" | "ingest2" => has(&s(&rq, "t1")) && has(&s(&rq, "t2")),
                            "update" => has(&s(&rq, "text")),
                            "delete" | "ingestdel" => !has(&s(&rq, "row")),
                            _ => true,
                        };
                        seen_all = seen_all && ok;
                    }
                    visible = json!(if seen_all { "yes" } else { "no" });
                }
                ack(json!({"req": name, "n": rq["n"], "res": if r.is_ok() { "ok" } else { "err" }, "visible": visible,
                    "msg": r.err().unwrap_or_default().chars().take(60).collect::<String>()}));
            }
        };
        if concurrent {
            let futs: Vec<_> = reqs.iter().cloned().map(run_one).collect();
            futures::future::join_all(futs).await;
        } else {
            for rq in reqs {
                run_one(rq).await;
            }
        }
        peer.write_barrier().await;
        ack(json!({"req": "DONE"}));
    });
    std::process::exit(0);
}

pub fn main(args: &[String]) -> i32 {
    if args.len() < 2 {
        eprintln!("usage: dv writer <scenarios.ndjson> <trace.ndjson>");
        return 2;
    }
    let scenarios = read_scenarios(&args[0]);
    let mut out = TraceWriter::create(&args[1]);
    let exe = std::env::current_exe().unwrap();
    let rt = tokio::runtime::Builder::new_multi_thread().worker_threads(3).enable_all().build().unwrap();
    rt.block_on(async {
        let mut long: HashMap<String, String> = HashMap::new();
        for (n, sc) in scenarios.iter().enumerate() {
            let mut folder = run_dir();
            folder.push(format!("w{n}"));
            std::fs::create_dir_all(&folder).unwrap();
            let child = std::process::Command::new(&exe).arg("writer-child").arg(&folder).arg(sc.to_string())
                .env("VERIF_SEED", std::env::var("VERIF_SEED").unwrap_or("1".to_string())).stderr(std::process::Stdio::null()).output().expect("child");
            let stdout = String::from_utf8_lossy(&child.stdout).to_string();
            let acks: Vec<Value> = stdout.lines().filter_map(|l| l.strip_prefix("ACK ")).filter_map(|l| serde_json::from_str(l).ok()).collect();
            let ready = acks.iter().any(|a| a["req"] == "READY");
            let done = acks.iter().any(|a| a["req"] == "DONE");
            let acks: Vec<Value> = acks.into_iter().filter(|a| a["req"] != "READY" && a["req"] != "DONE").collect();
            out.emit(json!({"ev":"begin","sid":sc["sid"]}));
            // restart on the same folder
            vh::set_clock(ts(1, 500));
            let after = match Peer::start_in("r", "u1", MODEL, &config(), folder.clone()).await {
                Ok(p) => {
                    if long.is_empty() {
                        for (nm, sh) in short_names(&p).await {
                            if let Some(a) = nm.strip_prefix("v.") {
                                long.insert(sh, a.to_string());
                            }
                        }
                    }
                    p.recompute().await;
                    let shorts: Vec<String> = long.keys().cloned().collect();
                    let v = store_json(&p, shorts, &long).await;
                    // the writer must be usable after the restart
                    let probe = p.db.query("query { v.A { name } }", None).await.is_ok();
                    json!({"restart": "ok", "store": v, "probe": probe})
                }
                Err(e) => json!({"restart": format!("err: {e}")}),
            };
            out.emit(json!({"ev":"run","workload":sc["workload"],"fault":sc.get("fault").cloned().unwrap_or(json!({"point":"none","hit":0,"kind":"none"})),
                "concurrent": sc.get("concurrent").cloned().unwrap_or(json!(false)),
                "ready": ready, "done": done, "exit": child.status.code().unwrap_or(-1), "acks": acks, "after": after}));
            out.emit(json!({"ev":"end"}));
            out.flush();
            let _ = std::fs::remove_dir_all(&folder);
        }
    });
    out.flush();
    println!("{{\"scenarios\":{},\"events\":{}}}", scenarios.len(), out.events);
    cleanup_run_dir();
    std::process::exit(0);
}
