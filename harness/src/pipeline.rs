//! C16: every interleaving of the read / validate+sign / write phases of 2-3 mutations of one row, executed
//! deterministically on the real phase functions (MutationQuery::execute on a reader connection,
//! RoomAuthorisations::validate_mutation, MutationQuery::write on the writer connection).
use crate::common::*;
use crate::scen::signing_key_of;
use crate::world::*;
use discret::verif_hooks as vh;
use discret::{Configuration, Parameters, ParametersAdd};
use serde_json::{json, Value};
use std::collections::HashMap;
use std::sync::Arc;
use vh::database::authorisation_service::RoomAuthorisations;
use vh::database::mutation_query::MutationQuery;
use vh::database::query_language::data_model_parser::DataModel;
use vh::database::query_language::mutation_parser::MutationParser;
use vh::database::sqlite_database::Writeable;

struct WriteMutation(Option<MutationQuery>);
impl Writeable for WriteMutation {
    fn write(&mut self, conn: &vh::rusqlite::Connection) -> Result<(), vh::rusqlite::Error> {
        if let Some(m) = self.0.as_mut() {
            m.write(conn)?;
        }
        Ok(())
    }
}

pub fn main(args: &[String]) -> i32 {
    if args.len() < 2 {
        eprintln!("usage: dv pipeline <scenarios.ndjson> <trace.ndjson>");
        return 2;
    }
    let scenarios = read_scenarios(&args[0]);
    let mut out = TraceWriter::create(&args[1]);
    let rt = tokio::runtime::Builder::new_multi_thread().worker_threads(3).enable_all().build().unwrap();
    rt.block_on(async {
        let mut config = Configuration::default();
        config.parallelism = 2;
        set_clock(0, 10);
        let peer = Peer::start("pl", "u1", MODEL, &config).await;
        let room = create_open_room(&peer, &[peer.vkey.clone()]).await.expect("room");
        let rid = vh::security::uid_encode(&room);
        let dm: DataModel = serde_json::from_str(&peer.db.datamodel().await.unwrap()).expect("data model");
        // the rooms as the authorisation actor holds them, loaded the way start-up does
        let mut ra = RoomAuthorisations { signing_key: signing_key_of("u1"), rooms: HashMap::new(), max_node_size: 1 << 20 };
        let rooms_json = peer.db.query(RoomAuthorisations::LOAD_QUERY, None).await.expect("load query");
        ra.load_json(&rooms_json).expect("load rooms");
        let mut k = 100;
        for sc in &scenarios {
            k += 10;
            set_clock(0, k);
            out.emit(json!({"ev":"begin","sid":sc["sid"]}));
            let r = peer.db.mutate("mutate { v.A { room_id:$room name:\"v0\" tag:\"v0\" } }", params(&[("room", rid.clone())])).await.expect("row");
            let id = vh::security::uid_encode(&id_of_result(&r, "v.A").unwrap());
            let mut pending: HashMap<String, MutationQuery> = HashMap::new();
            let mut problems: Vec<String> = Vec::new();
            for (i, st) in arr(sc, "order").iter().enumerate() {
                set_clock(0, k + 1 + i as i64);
                let m = s(st, "m");
                match s(st, "ph").as_str() {
                    "R" => {
                        let spec = &sc["muts"][&m];
                        // a mutation that assigns one field, or (text given) one that changes nothing
                        let custom = spec.get("text").and_then(|t| t.as_str()).map(|t| t.to_string());
                        let text = custom.clone().unwrap_or_else(|| format!("mutate {{ v.A {{ id:$id {}:$val }} }}", s(spec, "field")));
                        let parser = Arc::new(MutationParser::parse(&text, &dm).expect("parse"));
                        let mut p = Parameters::default();
                        p.add("id", id.clone()).unwrap();
                        if custom.is_none() {
                            p.add("val", s(spec, "val")).unwrap();
                        }
                        match peer.sql(move |conn| MutationQuery::execute(&mut p, parser, conn).map_err(|e| e.to_string())).await {
                            Ok(mq) => {
                                pending.insert(m, mq);
                            }
                            Err(e) => problems.push(format!("read {m}: {e}")),
                        }
                    }
                    "V" => {
                        if let Some(mq) = pending.get_mut(&m) {
                            if let Err(e) = ra.validate_mutation(mq) {
                                problems.push(format!("validate {m}: {e}"));
                            }
                        }
                    }
                    "W" => {
                        if let Some(mq) = pending.remove(&m) {
                            if let Err(e) = peer.db.db.writer.write(Box::new(WriteMutation(Some(mq)))).await {
                                problems.push(format!("write {m}: {e}"));
                            }
                        }
                    }
                    other => panic!("unknown phase {other}"),
                }
            }
            let q = peer.db.query("query { v.A(id=$id) { name tag } }", params(&[("id", id.clone())])).await.unwrap_or_default();
            let v: Value = serde_json::from_str(&q).unwrap_or(Value::Null);
            let row = v["v.A"].get(0).cloned().unwrap_or(Value::Null);
            out.emit(json!({"ev":"run","muts":sc["muts"],"order":sc["order"],"final":{"name":row["name"].as_str().unwrap_or("?"),"tag":row["tag"].as_str().unwrap_or("?")},"problems":problems}));
            out.emit(json!({"ev":"end"}));
        }
    });
    out.flush();
    println!("{{\"scenarios\":{},\"events\":{}}}", scenarios.len(), out.events);
    cleanup_run_dir();
    std::process::exit(0);
}
