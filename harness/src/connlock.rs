//! C20, connection level: the real RoomLockService, the real process_acquired_room (a spawned synchronisation task per
//! granted room, whose first query the harness leaves unanswered as long as the task is to keep running) and the real
//! release_pending_locks(), the function the loop of a connection calls when it ends.
//!
//! scenario: {"sid":n,"max":k,"steps":[{"op":"req","c":"c1","r":"r1"},{"op":"done","c":"c1","r":"r1"},{"op":"exit","c":"c1"}]}
//! ("start": the connection reads one grant from its channel and starts that room's task; "drain": every running task ends)
//! trace   : one event per step with the task started and, per connection, the rooms whose task is running
use crate::common::*;
use crate::world::*;
use discret::verif_hooks as vh;
use discret::Configuration;
use serde_json::{json, Value};
use std::collections::{HashMap, HashSet, VecDeque};
use std::sync::Arc;
use tokio::sync::{mpsc, Mutex};
use vh::security::Uid;
use vh::synchronisation::peer_inbound_service::{LocalPeerService, QueryService};
use vh::synchronisation::room_locking_service::RoomLockService;
use vh::synchronisation::{Answer, Query, QueryProtocol};

fn uid_of(name: &str) -> Uid {
    let mut u: Uid = Default::default();
    for (i, x) in name.as_bytes().iter().enumerate().take(u.len()) {
        u[i] = *x;
    }
    u
}
fn circuit_of(name: &str) -> [u8; 32] {
    let mut u = [0u8; 32];
    for (i, x) in name.as_bytes().iter().enumerate().take(32) {
        u[i] = *x;
    }
    u
}

struct Conn {
    grant_send: mpsc::UnboundedSender<Uid>,
    grant_recv: Option<mpsc::UnboundedReceiver<Uid>>,
    acquired: Arc<Mutex<HashSet<Uid>>>,
    query_service: QueryService,
    q_recv: mpsc::Receiver<QueryProtocol>,
    a_send: mpsc::Sender<Answer>,
    pending: HashMap<Uid, u64>, // room -> id of the unanswered RoomDefinition query of its task
}

async fn settle() {
    tokio::time::sleep(std::time::Duration::from_millis(15)).await;
}

pub fn main(args: &[String]) -> i32 {
    if args.len() < 2 {
        eprintln!("usage: dv connlock <scenarios.ndjson> <trace.ndjson>");
        return 2;
    }
    let scenarios = read_scenarios(&args[0]);
    let mut out = TraceWriter::create(&args[1]);
    let rt = tokio::runtime::Builder::new_multi_thread().worker_threads(3).enable_all().build().unwrap();
    rt.block_on(async {
        let mut config = Configuration::default();
        config.parallelism = 2;
        set_clock(0, 10);
        let peer = Peer::start("cl", "u1", MODEL, &config).await;
        let (dummy_send, mut dummy_recv) = mpsc::channel::<vh::peer_connection_service::PeerConnectionMessage>(32);
        tokio::spawn(async move { while dummy_recv.recv().await.is_some() {} });
        let peer_service = vh::peer_connection_service::PeerConnectionService { sender: dummy_send };
        for sc in &scenarios {
            let max = i(sc, "max") as usize;
            let service = RoomLockService::start(max);
            let mut conns: HashMap<String, Conn> = HashMap::new();
            let mut names: HashMap<Uid, String> = HashMap::new();
            out.emit(json!({"ev":"begin","sid":sc["sid"],"max":max}));
            for step in arr(sc, "steps") {
                let op = s(step, "op");
                let c = s(step, "c");
                if !conns.contains_key(&c) {
                    let (grant_send, grant_recv) = mpsc::unbounded_channel::<Uid>();
                    let (q_send, q_recv) = mpsc::channel::<QueryProtocol>(16);
                    let (a_send, a_recv) = mpsc::channel::<Answer>(16);
                    conns.insert(c.clone(), Conn { grant_send, grant_recv: Some(grant_recv), acquired: Arc::new(Mutex::new(HashSet::new())),
                        query_service: QueryService::start(q_send, a_recv), q_recv, a_send, pending: HashMap::new() });
                }
                let mut note = "ok".to_string();
                let mut started: Vec<Value> = Vec::new();
                match op.as_str() {
                    "start" => {
                        // the loop of the connection reads one grant from its channel and starts the task of that room
                        // (a grant that the service has decided arrives within milliseconds; the waiting time only matters on a loaded machine)
                        let wait = if c == "probe" { 8000 } else { 400 };
                        let conn = conns.get_mut(&c).unwrap();
                        let got = match conn.grant_recv.as_mut() {
                            Some(rcv) => tokio::time::timeout(std::time::Duration::from_millis(wait), rcv.recv()).await.ok().flatten(),
                            None => None,
                        };
                        match got {
                            Some(room) => {
                                started.push(json!({"c": c, "r": names.get(&room).cloned().unwrap_or_default()}));
                                let _ = LocalPeerService::verif_process_acquired_room(room, conn.acquired.clone(), conn.query_service.clone(), service.clone(),
                                    peer_service.clone(), &peer.services).await;
                                // its first query arrives: kept unanswered
                                if let Ok(Some(q)) = tokio::time::timeout(std::time::Duration::from_secs(3), conn.q_recv.recv()).await {
                                    if let Query::RoomDefinition(r) = q.query {
                                        conn.pending.insert(r, q.id);
                                    }
                                }
                            }
                            None => note = "no grant".to_string(),
                        }
                    }
                    "req" => {
                        let r = s(step, "r");
                        let u = uid_of(&r);
                        names.insert(u, r);
                        let mut rooms = VecDeque::new();
                        rooms.push_back(u);
                        let sender = conns[&c].grant_send.clone();
                        service.request_locks(circuit_of(&c), rooms, sender).await;
                    }
                    "done" => {
                        // the remote side answers the task's query with a failure: the task ends
                        let u = uid_of(&s(step, "r"));
                        let conn = conns.get_mut(&c).unwrap();
                        match conn.pending.remove(&u) {
                            Some(id) => {
                                let err = vh::bincode::serialize(&vh::synchronisation::Error::Authorisation("dv".to_string())).unwrap_or_default();
                                let _ = conn.a_send.send(Answer { id, success: false, complete: true, serialized: err }).await;
                                for _ in 0..100 {
                                    if !conn.acquired.lock().await.contains(&u) {
                                        break;
                                    }
                                    settle().await;
                                }
                            }
                            None => note = "no running task".to_string(),
                        }
                    }
                    "drain" => {
                        // every running task ends (the remote side fails their queries)
                        let keys: Vec<String> = conns.keys().cloned().collect();
                        for k in keys {
                            let conn = conns.get_mut(&k).unwrap();
                            let pend: Vec<(Uid, u64)> = conn.pending.drain().collect();
                            for (_, id) in pend {
                                let err = vh::bincode::serialize(&vh::synchronisation::Error::Authorisation("dv".to_string())).unwrap_or_default();
                                let _ = conn.a_send.send(Answer { id, success: false, complete: true, serialized: err }).await;
                            }
                            for _ in 0..100 {
                                if conn.acquired.lock().await.is_empty() {
                                    break;
                                }
                                settle().await;
                            }
                        }
                    }
                    "exit" => {
                        // what the loop of the connection calls when it ends
                        let conn = conns.get_mut(&c).unwrap();
                        match conn.grant_recv.take() {
                            Some(mut rcv) => LocalPeerService::release_pending_locks(&service, &mut rcv).await,
                            None => note = "already exited".to_string(),
                        }
                    }
                    other => panic!("unknown op {other}"),
                }
                settle().await;
                let grants: Vec<Value> = started.drain(..).collect();
                let mut running = serde_json::Map::new();
                let mut keys: Vec<String> = conns.keys().cloned().collect();
                keys.sort();
                for k in keys {
                    let mut rs: Vec<String> = conns[&k].acquired.lock().await.iter().map(|u| names.get(u).cloned().unwrap_or_default()).collect();
                    rs.sort();
                    running.insert(k, json!(rs));
                }
                let mut ev = step.clone();
                ev["ev"] = json!(op);
                ev.as_object_mut().unwrap().remove("op");
                ev["note"] = json!(note);
                ev["grants"] = Value::Array(grants);
                ev["running"] = Value::Object(running);
                out.emit(ev);
            }
            out.emit(json!({"ev":"end"}));
            out.flush();
        }
    });
    out.flush();
    println!("{{\"scenarios\":{},\"events\":{}}}", scenarios.len(), out.events);
    cleanup_run_dir();
    std::process::exit(0);
}
