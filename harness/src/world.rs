//! A small world of real discret database instances ("peers") wired back to back over in-memory
//! channels, with the projection of their storage onto the variables of the TLA+ specifications.
//!
//! Nothing in here decides anything: operations are executed on the real code, results and
//! projections are logged, TLC validates.
use discret::verif_hooks as vh;
use discret::{Configuration, Parameters, ParametersAdd};
use serde_json::{json, Value};
use std::collections::{BTreeMap, HashMap, HashSet};
use std::path::PathBuf;
use std::sync::atomic::{AtomicBool, AtomicUsize, Ordering};
use std::sync::Arc;
use tokio::sync::{mpsc, oneshot, Mutex};
use vh::database::graph_database::GraphDatabaseService;
use vh::database::sqlite_database::Writeable;
use vh::discret::DiscretServices;
use vh::event_service::EventService;
use vh::peer_connection_service::{PeerConnectionMessage, PeerConnectionService};
use vh::security::{base64_encode, derive_key, uid_decode, uid_encode, HardwareFingerprint, Uid};
use vh::signature_verification_service::SignatureVerificationService;
use vh::synchronisation::peer_inbound_service::{LocalPeerService, QueryService};
use vh::synchronisation::peer_outbound_service::{InboundQueryService, RemotePeerHandle};
use vh::synchronisation::{Answer, Query, QueryProtocol};

/// 2023-11-15 00:00:00 UTC: day 0 of the logical calendar
pub const BASE_DAY: i64 = 1_700_006_400_000;
pub const DAY_MS: i64 = 86_400_000;

pub fn ts(day: i64, k: i64) -> i64 {
    BASE_DAY + day * DAY_MS + k
}
/// abstract date: day * 1000 + millisecond offset (offsets used by the scenarios are < 1000)
pub fn abs_date(t: i64) -> i64 {
    if t < BASE_DAY {
        return -1;
    }
    let d = (t - BASE_DAY) / DAY_MS;
    let k = (t - BASE_DAY) % DAY_MS;
    d * 1000 + k.min(999)
}
pub fn set_clock(day: i64, k: i64) {
    vh::set_clock(ts(day, k));
}

pub const APP_KEY: &str = "verif app";
pub const MODEL: &str = "v {
    A { name: String, tag: String nullable, ra: [v.A] nullable, rb: [v.B] nullable }
    B { name: String, tag: String nullable, ra: [v.A] nullable, rb: [v.B] nullable }
}";

pub struct Peer {
    pub name: String,
    pub user: String,
    pub db: GraphDatabaseService,
    pub services: DiscretServices,
    pub vkey: Vec<u8>,
    pub private_room: Uid,
    pub folder: PathBuf,
    pub key_material: [u8; 32],
}

struct Noop {}
impl Writeable for Noop {
    fn write(&mut self, _conn: &vh::rusqlite::Connection) -> Result<(), vh::rusqlite::Error> {
        Ok(())
    }
}

pub fn run_dir() -> PathBuf {
    let mut p: PathBuf = std::env::var("DV_RUN_DIR")
        .unwrap_or_else(|_| format!("{}/run", env!("CARGO_MANIFEST_DIR")))
        .into();
    p.push(format!("{}", std::process::id()));
    p
}

pub fn key_material_for(user: &str) -> [u8; 32] {
    let seed = std::env::var("VERIF_SEED").unwrap_or_else(|_| "1".to_string());
    derive_key(&format!("verif user {user} seed {seed}"), b"dv")
}

impl Peer {
    pub async fn start(name: &str, user: &str, model: &str, config: &Configuration) -> Peer {
        let mut folder = run_dir();
        folder.push(name);
        Self::start_in(name, user, model, config, folder).await.expect("peer start")
    }

    pub async fn start_in(
        name: &str,
        user: &str,
        model: &str,
        config: &Configuration,
        folder: PathBuf,
    ) -> Result<Peer, String> {
        std::fs::create_dir_all(&folder).unwrap();
        let key_material = key_material_for(user);
        // the meeting public key, derived as Discret::new does
        let meeting_secret = vh::security::MeetingSecret::new(derive_key(&format!("{}{}", "MEETING_SECRET", APP_KEY), &key_material));
        let public_key: [u8; 32] = *meeting_secret.public_key().as_bytes();
        let events = EventService::new();
        let (db, vkey, private_room) = GraphDatabaseService::start(
            APP_KEY,
            model,
            &key_material,
            &public_key,
            folder.clone(),
            config,
            events.clone(),
        )
        .await
        .map_err(|e| e.to_string())?;
        let services = DiscretServices {
            events,
            database: db.clone(),
            signature_verification: SignatureVerificationService::start(2),
        };
        Ok(Peer {
            name: name.to_string(),
            user: user.to_string(),
            db,
            services,
            vkey,
            private_room,
            folder,
            key_material,
        })
    }

    /// everything sent to the writer before this call has been committed and acknowledged
    pub async fn write_barrier(&self) {
        let _ = self.db.query("query { sys.Room(first 1) { id } }", None).await;
        let _ = self.db.db.writer.write(Box::new(Noop {})).await;
    }

    /// request a recomputation of the daily log and wait until it has run
    pub async fn recompute(&self) {
        self.write_barrier().await;
        self.db.compute_daily_log().await;
        self.write_barrier().await;
        // the compute message goes db actor -> writer; a second round trip orders us behind it
        self.write_barrier().await;
    }

    pub async fn sql<T: Send + 'static>(
        &self,
        f: impl FnOnce(&vh::rusqlite::Connection) -> T + Send + 'static,
    ) -> T {
        let (s, r) = oneshot::channel::<T>();
        self.db
            .db
            .reader
            .send_async(Box::new(move |conn| {
                let _ = s.send(f(conn));
            }))
            .await
            .expect("reader pool gone");
        r.await.expect("reader dropped the query")
    }
}

pub fn sig_int(sig: &[u8]) -> i64 {
    if sig.len() < 4 {
        return 0;
    }
    (u32::from_be_bytes([sig[0], sig[1], sig[2], sig[3]]) >> 1) as i64
}

/// names for uids, stable per scenario
#[derive(Default)]
pub struct Names {
    pub rows: HashMap<String, Uid>,
    pub row_names: HashMap<Uid, String>,
    pub rooms: HashMap<String, Uid>,
    pub room_names: HashMap<Uid, String>,
    pub keys: HashMap<Vec<u8>, String>,
}
impl Names {
    pub fn row(&self, u: &Uid) -> String {
        self.row_names.get(u).cloned().unwrap_or_else(|| format!("?{}", &uid_encode(u)[0..6]))
    }
    pub fn room(&self, u: &Uid) -> String {
        self.room_names.get(u).cloned().unwrap_or_else(|| format!("?{}", &uid_encode(u)[0..6]))
    }
    pub fn key(&self, k: &[u8]) -> String {
        self.keys.get(k).cloned().unwrap_or_else(|| format!("?{}", &base64_encode(k)[0..6]))
    }
    pub fn add_row(&mut self, name: &str, u: Uid) {
        self.rows.insert(name.to_string(), u);
        self.row_names.insert(u, name.to_string());
    }
    pub fn add_room(&mut self, name: &str, u: Uid) {
        self.rooms.insert(name.to_string(), u);
        self.room_names.insert(u, name.to_string());
    }
}

pub struct RawNode {
    pub id: Uid,
    pub room: Option<Uid>,
    pub cdate: i64,
    pub mdate: i64,
    pub entity: String,
    pub json: Option<String>,
    pub vkey: Vec<u8>,
    pub sig: Vec<u8>,
    pub rowid: i64,
}
pub struct RawEdge {
    pub src: Uid,
    pub src_entity: String,
    pub label: String,
    pub dest: Uid,
    pub cdate: i64,
    pub vkey: Vec<u8>,
    pub sig: Vec<u8>,
}
pub struct RawNodeTomb {
    pub room: Uid,
    pub id: Uid,
    pub entity: String,
    pub mdate: i64,
    pub ddate: i64,
    pub vkey: Vec<u8>,
    pub sig: Vec<u8>,
}
pub struct RawEdgeTomb {
    pub room: Uid,
    pub src: Uid,
    pub src_entity: String,
    pub dest: Uid,
    pub label: String,
    pub cdate: i64,
    pub ddate: i64,
    pub vkey: Vec<u8>,
    pub sig: Vec<u8>,
}
pub struct RawLog {
    pub room: Uid,
    pub entity: String,
    pub date: i64,
    pub n: i64,
    pub dh: Option<Vec<u8>>,
    pub hh: Option<Vec<u8>>,
    pub dirty: bool,
}
pub struct RawStore {
    pub nodes: Vec<RawNode>,
    pub edges: Vec<RawEdge>,
    pub ntombs: Vec<RawNodeTomb>,
    pub etombs: Vec<RawEdgeTomb>,
    pub logs: Vec<RawLog>,
}

/// raw content of the storage tables for application entities (names not starting with "sys.")
pub async fn read_store(peer: &Peer, short_entities: Vec<String>, rooms: Vec<Uid>, rows: Vec<Uid>) -> RawStore {
    peer.sql(move |conn| {
        let inlist = short_entities.iter().map(|e| format!("'{}'", e)).collect::<Vec<_>>().join(",");
        let hex = |u: &Uid| format!("x'{}'", u.iter().map(|b| format!("{:02x}", b)).collect::<String>());
        let roomlist = if rooms.is_empty() { "x'00'".to_string() } else { rooms.iter().map(hex).collect::<Vec<_>>().join(",") };
        let rowlist = if rows.is_empty() { "x'00'".to_string() } else { rows.iter().map(hex).collect::<Vec<_>>().join(",") };
        let mut nodes = Vec::new();
        let q = format!("SELECT id, room_id, cdate, mdate, _entity, _json, verifying_key, _signature, rowid FROM _node WHERE _entity IN ({inlist}) AND (room_id IN ({roomlist}) OR id IN ({rowlist})) ORDER BY id");
        let mut st = conn.prepare(&q).unwrap();
        let mut rows = st.query([]).unwrap();
        while let Some(r) = rows.next().unwrap() {
            nodes.push(RawNode {
                id: r.get(0).unwrap(),
                room: r.get(1).unwrap(),
                cdate: r.get(2).unwrap(),
                mdate: r.get(3).unwrap(),
                entity: r.get(4).unwrap(),
                json: r.get(5).unwrap(),
                vkey: r.get(6).unwrap(),
                sig: r.get(7).unwrap(),
                rowid: r.get(8).unwrap(),
            });
        }
        let mut edges = Vec::new();
        let q = format!("SELECT src, src_entity, label, dest, cdate, verifying_key, signature FROM _edge WHERE src_entity IN ({inlist}) AND src IN ({rowlist}) ORDER BY src, label, dest");
        let mut st = conn.prepare(&q).unwrap();
        let mut rows = st.query([]).unwrap();
        while let Some(r) = rows.next().unwrap() {
            edges.push(RawEdge {
                src: r.get(0).unwrap(),
                src_entity: r.get(1).unwrap(),
                label: r.get(2).unwrap(),
                dest: r.get(3).unwrap(),
                cdate: r.get(4).unwrap(),
                vkey: r.get(5).unwrap(),
                sig: r.get(6).unwrap(),
            });
        }
        let mut ntombs = Vec::new();
        let q = format!("SELECT room_id, id, entity, mdate, deletion_date, verifying_key, signature FROM _node_deletion_log WHERE entity IN ({inlist}) AND (room_id IN ({roomlist}) OR id IN ({rowlist})) ORDER BY id, deletion_date");
        let mut st = conn.prepare(&q).unwrap();
        let mut rows = st.query([]).unwrap();
        while let Some(r) = rows.next().unwrap() {
            ntombs.push(RawNodeTomb {
                room: r.get(0).unwrap(),
                id: r.get(1).unwrap(),
                entity: r.get(2).unwrap(),
                mdate: r.get(3).unwrap(),
                ddate: r.get(4).unwrap(),
                vkey: r.get(5).unwrap(),
                sig: r.get(6).unwrap(),
            });
        }
        let mut etombs = Vec::new();
        let q = format!("SELECT room_id, src, src_entity, dest, label, cdate, deletion_date, verifying_key, signature FROM _edge_deletion_log WHERE src_entity IN ({inlist}) AND (room_id IN ({roomlist}) OR src IN ({rowlist})) ORDER BY src, label, dest, deletion_date");
        let mut st = conn.prepare(&q).unwrap();
        let mut rows = st.query([]).unwrap();
        while let Some(r) = rows.next().unwrap() {
            etombs.push(RawEdgeTomb {
                room: r.get(0).unwrap(),
                src: r.get(1).unwrap(),
                src_entity: r.get(2).unwrap(),
                dest: r.get(3).unwrap(),
                label: r.get(4).unwrap(),
                cdate: r.get(5).unwrap(),
                ddate: r.get(6).unwrap(),
                vkey: r.get(7).unwrap(),
                sig: r.get(8).unwrap(),
            });
        }
        let mut logs = Vec::new();
        let q = format!("SELECT room_id, entity, date, entry_number, daily_hash, history_hash, need_recompute FROM _daily_log WHERE entity IN ({inlist}) AND room_id IN ({roomlist}) ORDER BY room_id, entity, date");
        let mut st = conn.prepare(&q).unwrap();
        let mut rows = st.query([]).unwrap();
        while let Some(r) = rows.next().unwrap() {
            let dirty: Option<i64> = r.get(6).unwrap();
            logs.push(RawLog {
                room: r.get(0).unwrap(),
                entity: r.get(1).unwrap(),
                date: r.get(2).unwrap(),
                n: r.get(3).unwrap(),
                dh: r.get(4).unwrap(),
                hh: r.get(5).unwrap(),
                dirty: dirty.unwrap_or(0) != 0,
            });
        }
        RawStore { nodes, edges, ntombs, etombs, logs }
    })
    .await
}

/// short names (storage identifiers) of the application entities, e.g. {"v.A": "32", ...}
pub async fn short_names(peer: &Peer) -> BTreeMap<String, String> {
    let dm = peer.db.datamodel().await.unwrap();
    let v: Value = serde_json::from_str(&dm).unwrap();
    let mut res = BTreeMap::new();
    collect_short(&v, &mut res);
    res
}
fn collect_short(v: &Value, res: &mut BTreeMap<String, String>) {
    // DataModel serialisation: {"model":..., "namespaces": {ns: {"entities": {name: {"name":..,"short_name":..}}}}} : walk generically
    match v {
        Value::Object(m) => {
            if let (Some(Value::String(n)), Some(Value::String(s))) = (m.get("name"), m.get("short_name")) {
                if m.contains_key("fields") {
                    res.insert(n.clone(), s.clone());
                }
            }
            for (_, x) in m {
                collect_short(x, res);
            }
        }
        Value::Array(a) => {
            for x in a {
                collect_short(x, res);
            }
        }
        _ => {}
    }
}

pub struct PullStats {
    pub nodes_requested: usize,
    pub edges_requested: usize,
    pub queries: usize,
}

/// one directed synchronisation of `room`: `puller` runs the real synchronise_room against the real
/// serving side of `responder`, over in-memory channels.  `abort_after_nodes`: drop the responder after
/// it has answered that many Query::Nodes requests (interruption between batches).
pub async fn pull(
    puller: &Peer,
    responder: &Peer,
    room: Uid,
    abort_after_nodes: Option<usize>,
) -> (Result<(), String>, PullStats) {
    let (q_send, mut q_recv) = mpsc::channel::<QueryProtocol>(10);
    let (a_send, a_recv) = mpsc::channel::<Answer>(10);
    let query_service = QueryService::start(q_send, a_recv);
    let mut allowed = HashSet::new();
    allowed.insert(room);
    let mut handle = RemotePeerHandle {
        allowed_room: allowed,
        db: responder.db.clone(),
        verifying_key: responder.vkey.clone(),
        reply: a_send,
    };
    let vk = Arc::new(Mutex::new(puller.vkey.clone()));
    let ready = Arc::new(AtomicBool::new(true));
    let fingerprint = HardwareFingerprint { id: Default::default(), name: "dv".to_string() };
    let nodes_req = Arc::new(AtomicUsize::new(0));
    let edges_req = Arc::new(AtomicUsize::new(0));
    let queries = Arc::new(AtomicUsize::new(0));
    let (n2, e2, q2) = (nodes_req.clone(), edges_req.clone(), queries.clone());
    let responder_task = tokio::spawn(async move {
        let mut nodes_answers = 0usize;
        while let Some(msg) = q_recv.recv().await {
            q2.fetch_add(1, Ordering::SeqCst);
            let mut is_nodes = false;
            match &msg.query {
                Query::Nodes(_, ids) => {
                    n2.fetch_add(ids.len(), Ordering::SeqCst);
                    is_nodes = true;
                }
                Query::Edges(_, ids) => {
                    e2.fetch_add(ids.len(), Ordering::SeqCst);
                }
                _ => {}
            }
            if is_nodes {
                if let Some(limit) = abort_after_nodes {
                    if nodes_answers >= limit {
                        break; // the responder goes away: channels are dropped
                    }
                }
                nodes_answers += 1;
            }
            let _ = InboundQueryService::process_inbound(msg, &mut handle, &vk, &ready, &fingerprint).await;
        }
    });
    let (dummy_send, mut dummy_recv) = mpsc::channel::<PeerConnectionMessage>(32);
    let drain = tokio::spawn(async move { while dummy_recv.recv().await.is_some() {} });
    let peer_service = PeerConnectionService { sender: dummy_send };
    let res = LocalPeerService::verif_synchronise_room(room, &query_service, peer_service, &puller.services)
        .await
        .map_err(|e| e.to_string());
    drop(query_service);
    responder_task.abort();
    drain.abort();
    (
        res,
        PullStats {
            nodes_requested: nodes_req.load(Ordering::SeqCst),
            edges_requested: edges_req.load(Ordering::SeqCst),
            queries: queries.load(Ordering::SeqCst),
        },
    )
}

pub fn params(pairs: &[(&str, String)]) -> Option<Parameters> {
    let mut p = Parameters::default();
    for (k, v) in pairs {
        p.add(k, v.clone()).unwrap();
    }
    Some(p)
}

/// create a room in which `users` (verifying keys) have every right on every entity, admin = creator
pub async fn create_open_room(peer: &Peer, users: &[Vec<u8>]) -> Result<Uid, String> {
    let mut p = Parameters::default();
    p.add("admin", base64_encode(&peer.vkey)).unwrap();
    let mut users_txt = String::new();
    for (i, u) in users.iter().enumerate() {
        p.add(&format!("u{i}"), base64_encode(u)).unwrap();
        if i > 0 {
            users_txt.push(',');
        }
        users_txt.push_str(&format!("{{verif_key:$u{i}}}"));
    }
    let q = format!(
        r#"mutate {{ sys.Room {{ admin: [{{verif_key:$admin}}] authorisations:[{{ name:"all" rights:[{{entity:"*" mutate_self:true mutate_all:true}}] users:[{users_txt}] }}] }} }}"#
    );
    let res = peer.db.mutate(&q, Some(p)).await.map_err(|e| e.to_string())?;
    let v: Value = serde_json::from_str(&res).map_err(|e| e.to_string())?;
    let id = v["sys.Room"]["id"].as_str().ok_or("no room id")?.to_string();
    uid_decode(&id).map_err(|e| e.to_string())
}

pub fn id_of_result(res: &str, entity: &str) -> Option<Uid> {
    let v: Value = serde_json::from_str(res).ok()?;
    let id = v[entity]["id"].as_str()?;
    uid_decode(id).ok()
}

pub fn jstr(o: &Option<String>, field: &str) -> Value {
    match o {
        Some(s) => match serde_json::from_str::<Value>(s) {
            Ok(v) => v.get(field).cloned().unwrap_or(Value::Null),
            Err(_) => Value::Null,
        },
        None => Value::Null,
    }
}

pub fn hex8(b: &[u8]) -> String {
    b.iter().take(8).map(|x| format!("{:02x}", x)).collect()
}

pub fn cleanup_run_dir() {
    let _ = std::fs::remove_dir_all(run_dir());
}

#[allow(dead_code)]
pub fn unused(_: Value) {
    let _ = json!({});
}
