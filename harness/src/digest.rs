//! C06: pairs of rows chosen by the specification; the first is signed with a real key, the second is given the
//! first one's signature and checked with the real verify().  One model character = one block of eight bytes.
use crate::common::*;
use crate::scen::signing_key_of;
use crate::world::*;
use discret::verif_hooks as vh;
use discret::Configuration;
use serde_json::{json, Value};
use vh::database::edge::{Edge, EdgeDeletionEntry};
use vh::database::node::{Node, NodeDeletionEntry};
use vh::security::{SigningKey, Uid};

/// one model character = one block of eight bytes: a = `{"a":1} `, b = eight spaces, so that the sequences a, ab, ba are
/// JSON objects (the only JSON payloads the code signs) and the same blocks can be used in every other field
fn blocks(sv: &str) -> Vec<u8> {
    sv.bytes().flat_map(|c| if c == b'a' { b"{\"a\":1} ".to_vec() } else { b"        ".to_vec() }).collect()
}
fn uid(sv: &str) -> Uid {
    let b = blocks(sv);
    let mut u: Uid = Default::default();
    u.copy_from_slice(&b[0..16]);
    u
}
fn date(sv: &str) -> i64 {
    let b = blocks(sv);
    let mut a = [0u8; 8];
    a.copy_from_slice(&b[0..8]);
    i64::from_le_bytes(a)
}
fn text(sv: &str) -> String {
    String::from_utf8(blocks(sv)).unwrap()
}

enum Row {
    N(Node),
    E(Edge),
    NT(NodeDeletionEntry),
    ET(EdgeDeletionEntry),
}

fn build(r: &Value, vkey: &[u8]) -> Row {
    match s(r, "kind").as_str() {
        "node" => Row::N(Node {
            id: uid(&s(r, "id")), room_id: if s(r, "room") == "-" { None } else { Some(uid(&s(r, "room"))) }, cdate: date(&s(r, "c")), mdate: date(&s(r, "m")),
            _entity: text(&s(r, "ent")), _json: if s(r, "json") == "-" { None } else { Some(text(&s(r, "json"))) }, _binary: if s(r, "bin") == "-" { None } else { Some(blocks(&s(r, "bin"))) },
            verifying_key: vkey.to_vec(), _signature: vec![], _local_id: None }),
        "edge" => Row::E(Edge { src: uid(&s(r, "src")), src_entity: text(&s(r, "sent")), label: text(&s(r, "label")), dest: uid(&s(r, "dst")), cdate: date(&s(r, "c")),
            verifying_key: vkey.to_vec(), signature: vec![] }),
        "ntomb" => Row::NT(NodeDeletionEntry { room_id: uid(&s(r, "room")), id: uid(&s(r, "id")), entity: text(&s(r, "ent")), mdate: date(&s(r, "m")), deletion_date: date(&s(r, "d")),
            verifying_key: vkey.to_vec(), signature: vec![], entity_name: None }),
        _ => Row::ET(EdgeDeletionEntry { room_id: uid(&s(r, "room")), src: uid(&s(r, "src")), src_entity: text(&s(r, "sent")), dest: uid(&s(r, "dst")), label: text(&s(r, "label")),
            cdate: date(&s(r, "c")), deletion_date: date(&s(r, "d")), verifying_key: vkey.to_vec(), signature: vec![], entity_name: None }),
    }
}

fn sign(row: &mut Row, key: &vh::security::Ed25519SigningKey) -> Vec<u8> {
    match row {
        Row::N(n) => {
            n.sign(key).expect("sign node");
            n._signature.clone()
        }
        Row::E(e) => {
            e.sign(key).expect("sign edge");
            e.signature.clone()
        }
        Row::NT(t) => {
            let n = Node { id: t.id, mdate: t.mdate, _entity: t.entity.clone(), ..Default::default() };
            let sig = NodeDeletionEntry::sign(&t.room_id, &n, t.deletion_date, &t.verifying_key, key);
            t.signature = sig.clone();
            sig
        }
        Row::ET(t) => {
            let e = Edge { src: t.src, src_entity: t.src_entity.clone(), label: t.label.clone(), dest: t.dest, cdate: t.cdate, ..Default::default() };
            let sig = EdgeDeletionEntry::sign(&t.room_id, &e, t.deletion_date, &t.verifying_key, key);
            t.signature = sig.clone();
            sig
        }
    }
}

fn verify_with(row: &mut Row, sig: &[u8]) -> bool {
    match row {
        Row::N(n) => {
            n._signature = sig.to_vec();
            n.verify().is_ok()
        }
        Row::E(e) => {
            e.signature = sig.to_vec();
            e.verify().is_ok()
        }
        Row::NT(t) => {
            t.signature = sig.to_vec();
            t.verify().is_ok()
        }
        Row::ET(t) => {
            t.signature = sig.to_vec();
            t.verify().is_ok()
        }
    }
}

pub fn main(args: &[String]) -> i32 {
    if args.len() < 2 {
        eprintln!("usage: dv digest <scenarios.ndjson> <trace.ndjson>");
        return 2;
    }
    let scenarios = read_scenarios(&args[0]);
    let mut out = TraceWriter::create(&args[1]);
    let key = signing_key_of("u1");
    let vkey = key.export_verifying_key();
    let rt = tokio::runtime::Builder::new_multi_thread().worker_threads(2).enable_all().build().unwrap();
    rt.block_on(async {
        let mut victim: Option<Peer> = None;
        for sc in &scenarios {
            out.emit(json!({"ev":"begin","sid":sc["sid"]}));
            if sc.get("oracle").is_some() {
                // nothing a peer can ask yields a signature that verifies as a row the user did not author:
                // the identity challenge is signed as received, with the key that signs the rows
                if victim.is_none() {
                    let mut config = Configuration::default();
                    config.parallelism = 2;
                    victim = Some(Peer::start("victim", "u1", MODEL, &config).await);
                }
                let v = victim.as_ref().unwrap();
                let mut forged = match build(&sc["oracle"], &v.vkey) { Row::N(n) => n, _ => panic!("oracle scenario needs a node") };
                let digest = forged.hash().expect("hash").as_bytes().to_vec();
                let (q_send, _q) = tokio::sync::mpsc::channel::<vh::synchronisation::QueryProtocol>(1);
                drop(q_send);
                let (a_send, mut a_recv) = tokio::sync::mpsc::channel::<vh::synchronisation::Answer>(4);
                let mut handle = vh::synchronisation::peer_outbound_service::RemotePeerHandle { allowed_room: Default::default(), db: v.db.clone(), verifying_key: v.vkey.clone(), reply: a_send };
                let rk = std::sync::Arc::new(tokio::sync::Mutex::new(Vec::<u8>::new()));
                let ready = std::sync::Arc::new(std::sync::atomic::AtomicBool::new(false));
                let fp = vh::security::HardwareFingerprint { id: Default::default(), name: "dv".to_string() };
                let _ = vh::synchronisation::peer_outbound_service::InboundQueryService::process_inbound(
                    vh::synchronisation::QueryProtocol { id: 1, query: vh::synchronisation::Query::ProveIdentity(digest) }, &mut handle, &rk, &ready, &fp).await;
                let verified = match a_recv.try_recv() {
                    Ok(a) => match vh::bincode::deserialize::<vh::synchronisation::IdentityAnswer>(&a.serialized) {
                        Ok(ia) => {
                            forged._signature = ia.chall_signature;
                            forged.verify().is_ok()
                        }
                        Err(_) => false,
                    },
                    Err(_) => false,
                };
                out.emit(json!({"ev":"oracle","row":sc["oracle"],"verified":verified}));
            } else {
                let mut r1 = build(&sc["r1"], &vkey);
                let mut r2 = build(&sc["r2"], &vkey);
                let sig = sign(&mut r1, &key);
                let own = verify_with(&mut r1, &sig);
                let verified = verify_with(&mut r2, &sig);
                out.emit(json!({"ev":"pair","r1":sc["r1"],"r2":sc["r2"],"expect":sc["expect"],"class":sc["class"],"own":own,"verified":verified}));
            }
            out.emit(json!({"ev":"end"}));
        }
    });
    out.flush();
    println!("{{\"scenarios\":{},\"events\":{}}}", scenarios.len(), out.events);
    cleanup_run_dir();
    std::process::exit(0);
}
