use serde_json::Value;
use std::io::{BufRead, BufReader, BufWriter, Write};

pub fn read_scenarios(path: &str) -> Vec<Value> {
    let f = std::fs::File::open(path).unwrap_or_else(|e| panic!("open {path}: {e}"));
    let mut res = Vec::new();
    for line in BufReader::new(f).lines() {
        let line = line.unwrap();
        if line.trim().is_empty() {
            continue;
        }
        res.push(serde_json::from_str(&line).unwrap_or_else(|e| panic!("bad scenario line {line}: {e}")));
    }
    res
}

pub struct TraceWriter {
    out: BufWriter<std::fs::File>,
    pub events: u64,
}
impl TraceWriter {
    pub fn create(path: &str) -> Self {
        let f = std::fs::File::create(path).unwrap_or_else(|e| panic!("create {path}: {e}"));
        Self { out: BufWriter::new(f), events: 0 }
    }
    pub fn emit(&mut self, v: Value) {
        serde_json::to_writer(&mut self.out, &v).unwrap();
        self.out.write_all(b"\n").unwrap();
        self.events += 1;
    }
    pub fn flush(&mut self) {
        self.out.flush().unwrap();
    }
}

pub fn s(v: &Value, k: &str) -> String {
    v[k].as_str().unwrap_or_else(|| panic!("missing string field {k} in {v}")).to_string()
}
pub fn i(v: &Value, k: &str) -> i64 {
    v[k].as_i64().unwrap_or_else(|| panic!("missing int field {k} in {v}"))
}
pub fn arr<'a>(v: &'a Value, k: &str) -> &'a Vec<Value> {
    v[k].as_array().unwrap_or_else(|| panic!("missing array field {k} in {v}"))
}
