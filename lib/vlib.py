"""Shared machinery of the /verif checks.

Every check is:  TLC model-checks the specification  ->  TLC generates scenarios from it  ->
the Rust harness `dv` replays them on the real code (rebuilt from /repo's working tree with the
cargo feature `verif`) and records ndjson traces  ->  TLC validates the traces against the trace
specification  ->  verdict + evidence.

Exit codes of a check: 0 held (possibly with KNOWN-FINDING lines), 1 VIOLATION (with replay file),
2 tool error / timeout.
"""
import fcntl
import json
import os
import re
import shutil
import subprocess
import sys
import time

VERIF = os.path.dirname(os.path.dirname(os.path.abspath(__file__)))
REPO = "/repo"
SPEC = os.path.join(VERIF, "spec")
HARNESS = os.path.join(VERIF, "harness")
DV = os.path.join(HARNESS, "target", "debug", "dv")
EVIDENCE = os.path.join(VERIF, "evidence")
REPLAYS = os.path.join(VERIF, "replays")
KNOWN = os.path.join(VERIF, "known_findings.json")


class ToolError(Exception):
    pass


def log(*a):
    print(*a, flush=True)


class Ctx:
    def __init__(self, pid, tier, seed):
        self.pid = pid
        self.tier = tier
        self.seed = seed
        self.t0 = time.time()
        self.work = os.path.join(VERIF, "work", "%s-%d" % (pid, os.getpid()))
        shutil.rmtree(self.work, ignore_errors=True)
        os.makedirs(self.work)
        os.makedirs(EVIDENCE, exist_ok=True)
        os.makedirs(REPLAYS, exist_ok=True)
        self.violations = []      # (what, replay_path)
        self.known_hit = {}       # finding id -> text
        self.known = [f for f in load_known() if f.get("property") == pid and f.get("status", "open") == "open"]
        self.cov = {"states": 0, "transitions": 0, "traces_validated_against_impl": 0, "samples": [],
                    "model_runs": [], "scenarios_generated": 0, "steps_executed": 0,
                    "drift_scenarios": 0, "deviations_observed": {}}
        self.assumptions = []
        self.workers = int(os.environ.get("VERIF_WORKERS", "8"))

    # ------------------------------------------------------------------ build
    def build(self):
        """rebuild the harness (and discret with feature verif) from /repo's current working tree"""
        os.makedirs(os.path.join(VERIF, "work"), exist_ok=True)
        with open(os.path.join(VERIF, "work", ".build.lock"), "w") as lk:
            fcntl.flock(lk, fcntl.LOCK_EX)
            t = time.time()
            p = subprocess.run(["cargo", "build", "--offline", "--quiet"], cwd=HARNESS,
                               stdout=subprocess.PIPE, stderr=subprocess.STDOUT, text=True)
            if p.returncode != 0:
                log(p.stdout[-4000:])
                raise ToolError("harness build failed")
            self.cov["build_s"] = round(time.time() - t, 1)

    # ------------------------------------------------------------------ TLC
    def tlc(self, spec_dir, module, cfg_text, name, workers=None, simulate=None, depth=None, env=None,
            timeout=600, dfs=False, coverage=False, expect_error=False):
        """run TLC on spec_dir/module.tla with the given cfg text; returns (output, stats)"""
        d = os.path.join(self.work, name)
        os.makedirs(d, exist_ok=True)
        cfg = os.path.join(d, name + ".cfg")
        with open(cfg, "w") as f:
            f.write(cfg_text)
        e = dict(os.environ)
        jopts = "-Xss512m"
        if dfs:
            jopts += " -Dtlc2.tool.queue.IStateQueue=StateDeque"
        e["JAVA_TOOL_OPTIONS"] = jopts
        if env:
            e.update(env)
        cmd = ["timeout", str(timeout), "tlc", "-workers", str(workers or self.workers), "-metadir",
               os.path.join(d, "meta"), "-cleanup", "-noGenerateSpecTE", "-config", cfg]
        if simulate:
            cmd += ["-simulate", simulate, "-seed", str(self.seed)]
            if depth:
                cmd += ["-depth", str(depth)]
        if coverage:
            cmd += ["-coverage", "1"]
        cmd += [module + ".tla"]
        t = time.time()
        p = subprocess.run(cmd, cwd=spec_dir, env=e, stdout=subprocess.PIPE, stderr=subprocess.STDOUT, text=True)
        out = p.stdout
        with open(os.path.join(d, name + ".out"), "w") as f:
            f.write(out)
        shutil.rmtree(os.path.join(d, "meta"), ignore_errors=True)
        st = parse_tlc(out)
        st["wall_s"] = round(time.time() - t, 1)
        st["rc"] = p.returncode
        if p.returncode == 124:
            st["timeout"] = True
            if not simulate:
                raise ToolError("TLC timeout on %s/%s" % (module, name))
        if st.get("tool_error") and not expect_error:
            log(out[-3000:])
            raise ToolError("TLC failed on %s (%s): %s" % (module, name, st["tool_error"]))
        return out, st

    def model_check(self, spec_dir, module, cfg_text, name, **kw):
        """exhaustive (or simulated) check of the model itself; a violated invariant here means the
        specification is inconsistent with the property -> tool error (never a VIOLATION of the code)"""
        out, st = self.tlc(spec_dir, module, cfg_text, name, **kw)
        if st.get("violated"):
            log(out[-3000:])
            raise ToolError("model %s/%s violates %s" % (module, name, st["violated"]))
        self.cov["states"] += st.get("distinct", 0)
        self.cov["transitions"] += st.get("generated", 0)
        self.cov["model_runs"].append({"module": module, "config": name, "distinct_states": st.get("distinct", 0),
                                       "states_generated": st.get("generated", 0), "depth": st.get("depth"),
                                       "wall_s": st["wall_s"]})
        return out, st

    def expect_counterexample(self, spec_dir, module, cfg_text, name, **kw):
        """a configuration in which a known deviation is switched on: TLC must find the violation"""
        out, st = self.tlc(spec_dir, module, cfg_text, name, **kw)
        self.cov["model_runs"].append({"module": module, "config": name, "expected_violation": st.get("violated"),
                                       "distinct_states": st.get("distinct", 0), "wall_s": st["wall_s"]})
        return out, st

    def generate(self, spec_dir, module, cfg_text, name, tag="SCN", limit=None, **kw):
        """run a generator specification; returns the list of JSON values printed under `tag`"""
        out, st = self.tlc(spec_dir, module, cfg_text, name, **kw)
        if st.get("violated"):
            log(out[-3000:])
            raise ToolError("generator %s violated %s" % (module, st["violated"]))
        res = []
        seen = set()
        bykey = {}
        for m in re.finditer(r'<<"%s", "((?:[^"\\]|\\.)*)">>' % tag, out):
            s = tla_unescape(m.group(1))
            if s in seen:
                continue
            seen.add(s)
            v = json.loads(s)
            if isinstance(v, dict) and set(v.keys()) == {"h", "k"}:
                # one scenario per distinct model state (key k): keep the shortest history reaching it
                old = bykey.get(v["k"])
                if old is None or len(v["h"]) < len(old):
                    bykey[v["k"]] = v["h"]
            else:
                res.append(v)
        res += list(bykey.values())
        if limit is not None and len(res) > limit:
            import random
            res = random.Random(self.seed).sample(res, limit)
        self.cov["model_runs"].append({"module": module, "config": name, "role": "scenario generation",
                                       "distinct_states": st.get("distinct", 0), "scenarios": len(res),
                                       "wall_s": st["wall_s"]})
        return res

    # ------------------------------------------------------------------ harness
    def dv(self, args, timeout=1800, env=None):
        e = dict(os.environ)
        e["VERIF_SEED"] = str(self.seed)
        e["DV_RUN_DIR"] = os.path.join(self.work, "run")     # data folders of the instances: removed with the work directory
        if env:
            e.update(env)
        p = subprocess.run(["timeout", str(timeout), DV] + args, cwd=self.work, env=e,
                           stdout=subprocess.PIPE, stderr=subprocess.PIPE, text=True)
        if p.returncode != 0:
            log(p.stdout[-2000:])
            log(p.stderr[-4000:])
            raise ToolError("dv %s failed rc=%d" % (args[0], p.returncode))
        last = p.stdout.strip().splitlines()[-1] if p.stdout.strip() else "{}"
        try:
            return json.loads(last)
        except Exception:
            return {}

    def dv_world(self, scen_path, trace_path, nproc=4, timeout=3000, sub="world"):
        if self.tier != "quick":
            # thorough runs are long and the machine may be shared: more workers, a generous limit
            nproc, timeout = max(nproc, 8), max(timeout, 6 * 3600)
        """run `dv <sub>` on the scenarios with several worker processes (each has its own instances);
        the traces are concatenated in scenario order"""
        lines = [l for l in open(scen_path).read().split("\n") if l.strip()]
        nproc = max(1, min(nproc, len(lines) // 8 or 1))
        parts = [lines[i::nproc] for i in range(nproc)]
        procs = []
        e = dict(os.environ)
        e["VERIF_SEED"] = str(self.seed)
        e["DV_RUN_DIR"] = os.path.join(self.work, "run")     # data folders of the instances: removed with the work directory
        for i, part in enumerate(parts):
            sp = "%s.%d" % (scen_path, i)
            with open(sp, "w") as f:
                f.write("\n".join(part) + "\n")
            procs.append((subprocess.Popen(["timeout", str(timeout), DV, sub, sp, "%s.%d" % (trace_path, i)], cwd=self.work, env=e,
                                           stdout=subprocess.PIPE, stderr=subprocess.PIPE, text=True), sp, "%s.%d" % (trace_path, i)))
        events = 0
        with open(trace_path, "w") as out:
            for pr, sp, tp in procs:
                o, err = pr.communicate()
                if pr.returncode != 0:
                    log(o[-1500:])
                    log(err[-3000:])
                    raise ToolError("dv %s failed rc=%d" % (sub, pr.returncode))
                try:
                    events += json.loads(o.strip().splitlines()[-1]).get("events", 0)
                except Exception:
                    pass
                with open(tp) as f:
                    shutil.copyfileobj(f, out)
                os.remove(tp)
                os.remove(sp)
        self.cov["steps_executed"] += events
        return {"events": events}

    def write_scenarios(self, scenarios, name="scenarios.ndjson"):
        path = os.path.join(self.work, name)
        with open(path, "w") as f:
            for i, sc in enumerate(scenarios):
                f.write(json.dumps(sc) + "\n")
        self.cov["scenarios_generated"] += len(scenarios)
        return path

    # ------------------------------------------------------------------ trace validation
    def validate(self, spec_dir, module, cfg_text, trace_path, name, invariants_are_monitors=True,
                 chunk=400, timeout=900, max_fail=3):
        """Validate the scenarios of an ndjson trace (begin ... end blocks) against a trace spec.
        Returns a list of dicts per scenario: {sid, ok, reason, events, devs}."""
        scen = split_trace(trace_path)
        results = []
        todo = list(scen)
        run = 0
        nfail = 0
        while todo and nfail < max_fail:
            batch, todo = todo[:chunk], todo[chunk:]
            while batch and nfail < max_fail:
                run += 1
                tp = os.path.join(self.work, "%s.%d.ndjson" % (name, run))
                with open(tp, "w") as f:
                    for sc in batch:
                        for line in sc["lines"]:
                            f.write(line + "\n")
                out, st = self.tlc(spec_dir, module, cfg_text, "%s.%d" % (name, run), workers=1, dfs=True,
                                   env={"TRACE": tp}, timeout=timeout, expect_error=True)
                total = sum(len(sc["lines"]) for sc in batch)
                devs = parse_devs(out)
                fail_line = None      # 1-based index, within this batch, of the event that is not accepted
                reason = None
                m = re.search(r'<<"REACHED", (\d+), (\d+)>>', out)
                if st.get("violated"):
                    if st.get("last_l") is None:
                        log(out[-3000:])
                        raise ToolError("monitor violated but no position found (%s)" % name)
                    fail_line = max(1, st["last_l"] - 1)   # the state after consuming this line is bad
                    what = re.findall(r'<<"UNEXPLAINED",\s*((?:<<[^>]*>>|[^<>])*?)>>', out)
                    reason = "monitor %s fails%s after event" % (st["violated"], (" for " + "; ".join(sorted(set(what))[:4])) if what else "")
                elif st.get("tool_error"):
                    log(out[-3000:])
                    raise ToolError("trace validation failed: %s" % st["tool_error"])
                elif m:
                    if int(m.group(1)) < total:
                        fail_line = int(m.group(1)) + 1
                        reason = "no action of the specification explains event"
                else:
                    log(out[-3000:])
                    raise ToolError("trace validation: no REACHED line")
                os.remove(tp)
                pos = 0
                nxt = []
                failed = False
                for sc in batch:
                    n = len(sc["lines"])
                    if failed:
                        nxt.append(sc)
                    elif fail_line is None or pos + n < fail_line:
                        results.append({"sid": sc["sid"], "ok": True, "events": n, "devs": devs.get(sc["sid"], [])})
                    else:
                        idx = fail_line - pos - 1
                        results.append({"sid": sc["sid"], "ok": False, "events": n,
                                        "reason": "%s #%d: %s" % (reason, idx + 1, brief(sc["lines"][idx])),
                                        "monitor": st.get("violated"), "lines": sc["lines"],
                                        "devs": devs.get(sc["sid"], [])})
                        failed = True
                        nfail += 1
                    pos += n
                batch = nxt
        return results

    # ------------------------------------------------------------------ verdicts
    def violation(self, what, replay_obj):
        n = len(self.violations) + 1
        path = os.path.join(REPLAYS, "%s-%d-%d.json" % (self.pid, self.seed, n))
        with open(path, "w") as f:
            json.dump(replay_obj, f, indent=1)
        self.violations.append((what, path))
        log("VIOLATION property=%s replay=%s" % (self.pid, path))
        log("  " + what[:600])

    def known_finding(self, fid, text):
        if fid not in self.known_hit:
            self.known_hit[fid] = text
            log("KNOWN-FINDING: property=%s %s %s" % (self.pid, fid, text))

    def is_known(self, fid):
        return any(f["id"] == fid for f in self.known)

    def classify_deviation(self, fid, what, replay_obj):
        """a property failure attributed to the named deviation: known finding if listed, else violation"""
        self.cov["deviations_observed"][fid] = self.cov["deviations_observed"].get(fid, 0) + 1
        for f in self.known:
            if f["id"] == fid:
                self.known_finding(fid, f.get("what", what))
                return
        self.violation("%s: %s" % (fid, what), replay_obj)

    def finish(self, level, rule, distinct_nontrivial, exhaustive=False, extra=None):
        cov = self.cov
        cov["rule"] = rule
        cov["distinct_nontrivial"] = int(distinct_nontrivial)
        cov["evaluations"] = int(cov.get("steps_executed") or cov.get("scenarios_generated") or 0)
        cov["exhaustive"] = bool(exhaustive)
        cov["known_findings_reported"] = sorted(self.known_hit.keys())
        if extra:
            cov.update(extra)
        cov["samples"] = cov["samples"][:6]
        ev = {"property_id": self.pid, "tier": self.tier, "seed": self.seed, "level": level, "coverage": cov,
              "assumptions": self.assumptions, "wall_s": round(time.time() - self.t0, 1),
              "violations": len(self.violations)}
        # the evidence file describes a run of the quick or thorough command; replaying one scenario does not replace it
        if not getattr(self, "replay", None):
            with open(os.path.join(EVIDENCE, self.pid + ".json"), "w") as f:
                json.dump(ev, f, indent=1)
        if not os.environ.get("VERIF_KEEP"):
            shutil.rmtree(self.work, ignore_errors=True)
        log("%s %s: %s in %.0fs (states=%d, scenarios=%d, traces validated=%d, known findings=%d)" % (
            self.pid, self.tier, "VIOLATED" if self.violations else "held", time.time() - self.t0, cov["states"],
            cov["scenarios_generated"], cov["traces_validated_against_impl"], len(self.known_hit)))
        return 1 if self.violations else 0


def brief(line):
    try:
        e = json.loads(line)
        for k in ("st", "defs", "groups", "out", "paths", "dates"):
            e.pop(k, None)
        return json.dumps(e)[:300]
    except Exception:
        return line[:300]


def load_known():
    try:
        with open(KNOWN) as f:
            return json.load(f).get("findings", [])
    except FileNotFoundError:
        return []


def tla_unescape(s):
    out = []
    i = 0
    while i < len(s):
        c = s[i]
        if c == "\\" and i + 1 < len(s):
            n = s[i + 1]
            out.append({"n": "\n", "t": "\t", "r": "\r", "f": "\f"}.get(n, n))
            i += 2
        else:
            out.append(c)
            i += 1
    return "".join(out)


def parse_tlc(out):
    st = {}
    m = re.search(r"(\d+) states generated, (\d+) distinct states found", out)
    if m:
        st["generated"] = int(m.group(1))
        st["distinct"] = int(m.group(2))
    m = re.search(r"depth of the complete state graph search is (\d+)", out)
    if m:
        st["depth"] = int(m.group(1))
    m = re.search(r"Invariant (\S+) is violated", out)
    if m:
        st["violated"] = m.group(1)
    m = re.search(r"Temporal properties were violated", out)
    if m:
        st["violated"] = "temporal property"
    m = re.search(r"Action property (\S+) is violated|Error: Action property", out)
    if m:
        st["violated"] = m.group(1) or "action property"
    if "violated" in st:
        ls = re.findall(r"^/\\ l = (\d+)", out, re.M)
        if ls:
            st["last_l"] = int(ls[-1])
    for pat in ["Parsing or semantic analysis failed", "TLC threw an unexpected exception",
                "Error: The invariant of", "Error evaluating", "was not able to", "Attempted to",
                "java.lang.", "Error: TLC", "In evaluation, the identifier", "The exception was"]:
        if pat in out and "violated" not in st:
            st["tool_error"] = pat
            break
    if "simulat" in out.lower():
        m = re.search(r"The number of states generated: (\d+)", out)
        if m:
            st["generated"] = int(m.group(1))
            st.setdefault("distinct", int(m.group(1)))
    return st


def parse_devs(out):
    """lines printed by trace specs at the end of each scenario: <<"DEVS", sid, {"a","b"}>>"""
    res = {}
    for m in re.finditer(r'<<"DEVS", (\d+), \{([^}]*)\}>>', out):
        res[int(m.group(1))] = sorted(set(x.strip().strip('"') for x in m.group(2).split(",") if x.strip()))
    return res


def split_trace(path):
    scen = []
    cur = None
    with open(path) as f:
        for line in f:
            line = line.rstrip("\n")
            if not line:
                continue
            if line.startswith('{"ev":"begin"') or '"ev":"begin"' in line[:40]:
                cur = {"sid": json.loads(line).get("sid"), "lines": []}
                scen.append(cur)
            if cur is None:
                raise ToolError("trace does not start with begin")
            cur["lines"].append(line)
    return scen


def drop_prefixes(seqs):
    """keep only sequences that are not a proper prefix of another (lists of JSON values)"""
    keys = sorted(json.dumps(s, sort_keys=True)[:-1] for s in seqs)
    keep = []
    for i, k in enumerate(keys):
        if i + 1 < len(keys) and keys[i + 1].startswith(k) and keys[i + 1] != k:
            continue
        keep.append(json.loads(k + "]"))
    return keep


def main(check_fn, pid):
    import argparse
    ap = argparse.ArgumentParser()
    ap.add_argument("--tier", default=os.environ.get("VERIF_TIER", "quick"))
    ap.add_argument("--replay")
    a = ap.parse_args(sys.argv[2:])
    seed = int(os.environ.get("VERIF_SEED", "1"))
    ctx = Ctx(pid, a.tier, seed)
    ctx.replay = a.replay
    try:
        rc = check_fn(ctx, a.replay)
    except ToolError as e:
        log("TOOL-ERROR %s: %s" % (pid, e))
        shutil.rmtree(ctx.work, ignore_errors=True)
        sys.exit(2)
    sys.exit(rc)
