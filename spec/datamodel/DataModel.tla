------------------------------ MODULE DataModel ------------------------------
(* Data model versions (C15), data_model_parser.rs:239-379, 987-1082.       *)
(* A version is a sequence of entities, each a sequence of fields           *)
(* [name, type, nullable, hasdef].  Storage identifiers are positional: the *)
(* i-th entity of the namespace, the j-th field of the entity; an accepted  *)
(* version may only append entities and fields (a new scalar field needs a  *)
(* default or to be nullable), change defaults / nullability (a nullable    *)
(* field becomes non-nullable only with a default), never remove, reorder   *)
(* or retype.  A refused version changes nothing.                           *)
EXTENDS Naturals, Sequences, FiniteSets, TLC
IsPrefixBy(old, new, Same(_, _)) == Len(old) <= Len(new) /\ \A i \in 1..Len(old) : Same(old[i], new[i])
FieldOK(o, n) == /\ o.name = n.name /\ o.type = n.type
                 /\ (o.nullable /\ ~n.nullable => n.hasdef)
NewFieldOK(f) == f.nullable \/ f.hasdef
EntityOK(o, n) == /\ o.name = n.name
                  /\ IsPrefixBy(o.fields, n.fields, FieldOK)
                  /\ \A j \in (Len(o.fields) + 1)..Len(n.fields) : NewFieldOK(n.fields[j])
NoDup(s) == \A i, j \in 1..Len(s) : i # j => s[i].name # s[j].name
WellFormed(v) == NoDup(v) /\ \A i \in 1..Len(v) : NoDup(v[i].fields)
\* a brand new entity may have plain fields (no rows exist yet)
Compatible(cur, v) == WellFormed(v) /\ IsPrefixBy(cur, v, EntityOK)
\* storage identifiers: position based, so they depend only on the sequence of accepted versions
EntityId(v, i) == i - 1
FieldId(e, j) == 32 + j - 1
Ids(v) == [i \in 1..Len(v) |-> [name |-> v[i].name, id |-> EntityId(v, i),
                               fields |-> [j \in 1..Len(v[i].fields) |-> [name |-> v[i].fields[j].name, id |-> FieldId(v[i], j)]]]]
=============================================================================
