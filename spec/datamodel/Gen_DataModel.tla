---------------------------- MODULE Gen_DataModel ----------------------------
(* Generator of version sequences for C15: from a base model, valid edits   *)
(* (added entity, 1-3 added fields, default / nullability changes) and      *)
(* invalid ones (removed, reordered, retyped field, new field without       *)
(* default, a version valid for one entity and invalid for another); the    *)
(* next edit always starts from the last version the specification accepts. *)
EXTENDS DataModel, Json
CONSTANTS MaxLen
VARIABLES cur, hist
gvars == <<cur, hist>>
F(n, t, nu, d) == [name |-> n, type |-> t, nullable |-> nu, hasdef |-> d]
Base == << [name |-> "A", fields |-> <<F("name", "String", FALSE, FALSE), F("n", "Integer", TRUE, FALSE)>>],
           [name |-> "B", fields |-> <<F("name", "String", FALSE, FALSE)>>] >>
NewFields == { <<F("f1", "String", TRUE, FALSE)>>, <<F("f1", "String", FALSE, TRUE)>>, <<F("f1", "String", FALSE, FALSE)>>,
               <<F("f1", "String", TRUE, FALSE), F("f2", "Integer", FALSE, TRUE)>>,
               <<F("f1", "String", TRUE, FALSE), F("f2", "Integer", FALSE, TRUE), F("f3", "String", TRUE, FALSE)>>,
               <<F("g1", "Integer", TRUE, FALSE), F("g2", "String", FALSE, TRUE), F("g3", "Integer", TRUE, FALSE)>>,
               \* declared in an order that is not the order of their names (identifiers follow the declaration, not the alphabet)
               <<F("z1", "String", TRUE, FALSE), F("a1", "Integer", FALSE, TRUE)>>,
               <<F("m2", "Integer", TRUE, FALSE), F("m1", "String", FALSE, TRUE), F("b0", "String", TRUE, FALSE)>> }
Fresh(e, fs) == \A i \in 1..Len(fs) : \A j \in 1..Len(e.fields) : e.fields[j].name # fs[i].name
AddFields(v, i, fs) == [v EXCEPT ![i].fields = @ \o fs]
RemoveLast(s) == SubSeq(s, 1, Len(s) - 1)
Swap(s) == IF Len(s) < 2 THEN s ELSE <<s[2], s[1]>> \o SubSeq(s, 3, Len(s))
Edits(v) ==
    {AddFields(v, i, fs) : i \in 1..Len(v), fs \in {x \in NewFields : TRUE}} 
    \cup {Append(v, [name |-> "C", fields |-> <<F("name", "String", FALSE, FALSE), F("k", "Integer", FALSE, FALSE)>>])}
    \cup {[v EXCEPT ![i].fields = RemoveLast(@)] : i \in 1..Len(v)}
    \cup {[v EXCEPT ![i].fields = Swap(@)] : i \in 1..Len(v)}
    \cup {[v EXCEPT ![i].fields[1].type = "Integer"] : i \in 1..Len(v)}
    \cup {[v EXCEPT ![1].fields[2].nullable = FALSE, ![1].fields[2].hasdef = TRUE]}
    \cup {[v EXCEPT ![1].fields[2].nullable = FALSE]}
    \cup {Swap(v), RemoveLast(v)}
    \* valid for one entity, invalid for another
    \cup {[AddFields(v, 1, fs) EXCEPT ![2].fields = RemoveLast(@)] : fs \in {<<F("f1", "String", TRUE, FALSE), F("f2", "Integer", FALSE, TRUE)>>}}
    \cup {[AddFields(v, 2, <<F("h1", "String", TRUE, FALSE)>>) EXCEPT ![1].fields[1].type = "Integer"]}
GInit == cur = Base /\ hist = <<Base>>
Propose == \E v \in Edits(cur) :
             /\ \A i \in 1..Len(v) : Len(v[i].fields) >= 1
             /\ hist' = Append(hist, v)
             /\ cur' = IF Compatible(cur, v) THEN v ELSE cur
GSpec == GInit /\ [][Propose]_gvars
Emit == Len(hist) # MaxLen \/ PrintT(<<"SCN", ToJson(hist)>>)
\* exhaustive checks of the specification itself (bounded number of versions)
Bound == Len(hist) <= MaxLen
\* identifiers of accepted items never change: every entity and field keeps its position
IdsKept == [][\A i \in 1..Len(cur) : /\ i <= Len(cur') /\ cur'[i].name = cur[i].name
                                      /\ \A j \in 1..Len(cur[i].fields) : j <= Len(cur'[i].fields) /\ cur'[i].fields[j].name = cur[i].fields[j].name
                                                                            /\ cur'[i].fields[j].type = cur[i].fields[j].type]_gvars
\* identifiers never collide, and rows written before stay readable: a field that may be absent from old rows is nullable or has a default
IdsInjective == WellFormed(cur)
OldRowsReadable == \A i \in 1..Len(cur) : \A j \in 1..Len(cur[i].fields) :
                      (i <= Len(Base) /\ j > Len(Base[i].fields)) => (cur[i].fields[j].nullable \/ cur[i].fields[j].hasdef)
=============================================================================
