--------------------------- MODULE Trace_DataModel ---------------------------
(* C15 on traces of the real parser and of a running instance.  The         *)
(* abstract version of every proposal is in the trace; the specification    *)
(* decides whether it is compatible with the last accepted one and which    *)
(* storage identifiers every entity and field must have (positional), and   *)
(* requires: the same verdict and the same identifiers from every parser    *)
(* instance and from the running instance; a refused version changes        *)
(* nothing; the rows written under the first version stay readable; the     *)
(* instance restarts on the last accepted text with the same identifiers.   *)
EXTENDS DataModel, Json, IOUtils, TLC
CONSTANTS KNOWN
Rec == ndJsonDeserialize(IOEnv.TRACE)
VARIABLES l, cur, bad, devs, sid
tvars == <<l, cur, bad, devs, sid>>
ToSet(s) == {s[i] : i \in DOMAIN s}
Ev == Rec[l]
\* identifiers as reported: entity name -> [id (string "1.<pos>"), fields : name -> id]
IdsMatch(obs, v) ==
    /\ DOMAIN obs = {v[i].name : i \in 1..Len(v)}
    /\ \A i \in 1..Len(v) :
         /\ obs[v[i].name].id = "1." \o ToString(EntityId(v, i))
         /\ DOMAIN obs[v[i].name].fields = {v[i].fields[j].name : j \in 1..Len(v[i].fields)}
         /\ \A j \in 1..Len(v[i].fields) : obs[v[i].name].fields[v[i].fields[j].name] = FieldId(v[i], j)
Problems ==
    LET v == Ev.abs
        ok == Compatible(cur, v)
        target == IF ok THEN v ELSE cur
    IN (IF Len(Ev.pure) # 1 THEN {<<"parser-instances-disagree", "NewFieldIdsFollowHashOrder">>} ELSE {})
       \cup UNION {(IF (o.res = "ok") # ok THEN {<<"parser-verdict", "none">>} ELSE {})
                   \cup (IF o.res = "ok" /\ ok /\ ~IdsMatch(o.ids, v) THEN {<<"parser-identifiers", "NewFieldIdsFollowHashOrder">>} ELSE {}) : o \in ToSet(Ev.pure)}
       \cup (IF Ev.pure_refused_changed THEN {<<"refused-version-changed-the-model", "RefusedUpdatePartiallyApplied">>} ELSE {})
       \cup (IF (Ev.live.res = "ok") # ok THEN {<<"instance-verdict", "none">>} ELSE {})
       \cup (IF Ev.live.res = "ok" /\ ok /\ ~IdsMatch(Ev.live.ids, v) THEN {<<"instance-identifiers", "NewFieldIdsFollowHashOrder">>} ELSE {})
       \cup (IF Ev.live.res = "err" /\ ~Ev.live.unchanged THEN {<<"refused-version-changed-the-instance", "RefusedUpdatePartiallyApplied">>} ELSE {})
       \cup (IF ~Ev.old_rows_ok THEN {<<"old-rows-not-readable", "none">>} ELSE {})
Step == /\ l <= Len(Rec) /\ Ev.ev \in {"start", "version", "restart"} /\ l' = l + 1
        /\ LET objs == IF Ev.ev = "version" THEN Problems
                       ELSE IF Ev.ev = "start" THEN (IF Ev.res = "ok" /\ IdsMatch(Ev.ids, Ev.abs) THEN {} ELSE {<<"first-version", "none">>})
                       ELSE (IF Ev.r.res # "ok" THEN {<<"restart-refused", "NewFieldIdsFollowHashOrder">>}
                             ELSE IF ~Ev.r.same \/ ~IdsMatch(Ev.r.ids, cur) THEN {<<"identifiers-changed-at-restart", "none">>} ELSE {})
           IN /\ bad' = bad \cup {<<"UNEXPLAINED", o[1]>> : o \in {x \in objs : x[2] \notin KNOWN}}
              /\ devs' = devs \cup {o[2] : o \in {x \in objs : x[2] \in KNOWN}}
        \* the accepted version as the SPECIFICATION decides it
        /\ cur' = IF Ev.ev = "start" THEN Ev.abs ELSE IF Ev.ev = "version" /\ Compatible(cur, Ev.abs) THEN Ev.abs ELSE cur
        /\ UNCHANGED sid
Begin == /\ l <= Len(Rec) /\ Ev.ev = "begin" /\ l' = l + 1 /\ sid' = Ev.sid /\ cur' = <<>> /\ bad' = {} /\ devs' = {}
End == /\ l <= Len(Rec) /\ Ev.ev = "end" /\ l' = l + 1 /\ PrintT(<<"DEVS", sid, devs>>) /\ UNCHANGED <<cur, bad, devs, sid>>
TInit == l = 1 /\ cur = <<>> /\ bad = {} /\ devs = {} /\ sid = 0
TNext == Begin \/ Step \/ End
TSpec == TInit /\ [][TNext]_tvars
Monitors == \A o \in bad : o[1] # "UNEXPLAINED"
Reached == PrintT(<<"REACHED", TLCGet("stats").diameter - 1, Len(Rec)>>)
=============================================================================
