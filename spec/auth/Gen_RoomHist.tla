---------------------------- MODULE Gen_RoomHist ----------------------------
(* Generator of room histories for C10 (and C07): a room created by its     *)
(* admin and a sequence of accepted-looking updates (users enabled,         *)
(* disabled, re-enabled; rights replaced over time, including a right with  *)
(* all-rows but not own-rows set; a second admin; user admins), spread over *)
(* days, with a cut in the middle at which the room is exported once.       *)
EXTENDS Naturals, Sequences, TLC, Json
CONSTANTS MaxLen
VARIABLES hist, cut
gvars == <<hist, cut>>
R(e, s, a) == [ent |-> e, self |-> s, all |-> a]
RightSets == { <<>>, <<R("A", TRUE, FALSE)>>, <<R("*", TRUE, TRUE)>>, <<R("A", FALSE, TRUE)>>, <<R("*", TRUE, FALSE), R("A", TRUE, TRUE)>> }
UserSets == { <<>>, <<"u2">>, <<"u2", "u3">> }
U(g, what, user, en, e, s, a) == [op |-> "roomupd", p |-> "p1", room |-> "R1", g |-> g, what |-> what, user |-> user, enabled |-> en, ent |-> e, self |-> s, all |-> a]
UpdMenu == { U("g1", "user", "u2", FALSE, "A", TRUE, FALSE), U("g1", "user", "u2", TRUE, "A", TRUE, FALSE), U("g1", "user", "u3", TRUE, "A", TRUE, FALSE),
             U("g2", "user", "u3", FALSE, "A", TRUE, FALSE), U("g1", "uadmin", "u2", TRUE, "A", TRUE, FALSE), U("g1", "uadmin", "u2", FALSE, "A", TRUE, FALSE),
             U("g1", "admin", "u3", TRUE, "A", TRUE, FALSE), U("g1", "admin", "u3", FALSE, "A", TRUE, FALSE),
             U("g1", "right", "u2", TRUE, "A", FALSE, FALSE), U("g1", "right", "u2", TRUE, "A", TRUE, TRUE), U("g1", "right", "u2", TRUE, "A", FALSE, TRUE),
             U("g2", "right", "u2", TRUE, "*", TRUE, FALSE), U("g2", "right", "u2", TRUE, "B", TRUE, TRUE) }
GInit == hist = <<>> /\ cut = FALSE
Def == /\ hist = <<>>
       /\ \E r1 \in RightSets, u1 \in UserSets, r2 \in RightSets, ua \in {<<>>, <<"u2">>} :
            hist' = <<[op |-> "roomdef", p |-> "p1", room |-> "R1", admins |-> <<"u1">>,
                       groups |-> << [g |-> "g1", rights |-> r1, users |-> u1, uadmins |-> ua],
                                     [g |-> "g2", rights |-> r2, users |-> <<"u3">>, uadmins |-> <<>>] >>]>>
       /\ UNCHANGED cut
Upd == hist # <<>> /\ \E m \in UpdMenu : hist' = Append(hist, m) /\ UNCHANGED cut
Day == hist # <<>> /\ hist[Len(hist)].op # "day" /\ hist' = Append(hist, [op |-> "day"]) /\ UNCHANGED cut
Cut == hist # <<>> /\ ~cut /\ cut' = TRUE /\ hist' = Append(hist, [op |-> "cut"])
GNext == Def \/ Upd \/ Day \/ Cut
GSpec == GInit /\ [][GNext]_gvars
Emit == Len(hist) # MaxLen \/ PrintT(<<"SCN", ToJson(hist)>>)
=============================================================================
