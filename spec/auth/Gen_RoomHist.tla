---------------------------- MODULE Gen_RoomHist ----------------------------
(* Generator of room histories for C10 (and C07): a room created by its     *)
(* admin and a sequence of accepted-looking updates (users enabled,         *)
(* disabled, re-enabled; rights replaced over time, including a right with  *)
(* all-rows but not own-rows set; a second admin; user admins), spread over *)
(* days, with a cut in the middle at which the room is exported once.       *)
(* Updates can also be made by a second admin on its own instance.          *)
EXTENDS Naturals, Sequences, TLC, Json
CONSTANTS MaxLen, WithAttack, SecondActor
VARIABLES hist, cut, done
gvars == <<hist, cut, done>>
R(e, s, a) == [ent |-> e, self |-> s, all |-> a]
RightSets == { <<>>, <<R("A", TRUE, FALSE)>>, <<R("*", TRUE, TRUE)>>, <<R("A", FALSE, TRUE)>>, <<R("*", TRUE, FALSE), R("A", TRUE, TRUE)>> }
UserSets == { <<>>, <<"u2">>, <<"u2", "u3">> }
U(g, what, user, en, e, s, a) == [op |-> "roomupd", p |-> "p1", room |-> "R1", g |-> g, what |-> what, user |-> user, enabled |-> en, ent |-> e, self |-> s, all |-> a]
UpdMenu == { U("g1", "user", "u2", FALSE, "A", TRUE, FALSE), U("g1", "user", "u2", TRUE, "A", TRUE, FALSE), U("g1", "user", "u3", TRUE, "A", TRUE, FALSE),
             U("g2", "user", "u3", FALSE, "A", TRUE, FALSE), U("g1", "uadmin", "u2", TRUE, "A", TRUE, FALSE), U("g1", "uadmin", "u2", FALSE, "A", TRUE, FALSE),
             U("g1", "admin", "u3", TRUE, "A", TRUE, FALSE), U("g1", "admin", "u3", FALSE, "A", TRUE, FALSE),
             U("g1", "right", "u2", TRUE, "A", FALSE, FALSE), U("g1", "right", "u2", TRUE, "A", TRUE, TRUE), U("g1", "right", "u2", TRUE, "A", FALSE, TRUE),
             U("g2", "right", "u2", TRUE, "*", TRUE, FALSE), U("g2", "right", "u2", TRUE, "B", TRUE, TRUE) }
GInit == hist = <<>> /\ cut = FALSE /\ done = FALSE
Def == /\ hist = <<>>
       /\ \E r1 \in RightSets, u1 \in UserSets, r2 \in RightSets, ua \in {<<>>, <<"u2">>} :
            hist' = <<[op |-> "roomdef", p |-> "p1", room |-> "R1", admins |-> <<"u1">>,
                       groups |-> << [g |-> "g1", rights |-> r1, users |-> u1, uadmins |-> ua],
                                     [g |-> "g2", rights |-> r2, users |-> <<"u3">>, uadmins |-> <<>>] >>]>>
       /\ UNCHANGED <<cut, done>>
\* with SecondActor the update is made either by the creator (p1) or by u3 on its own instance (p3): accepted there only while u3 is
\* an admin (or a user admin of the group), and later read by everybody else after u3 may have lost that role
Upd == hist # <<>> /\ ~done /\ \E m \in UpdMenu, p \in (IF SecondActor THEN {"p1", "p3"} ELSE {"p1"}) :
          hist' = Append(hist, [m EXCEPT !.p = p]) /\ UNCHANGED <<cut, done>>
Day == hist # <<>> /\ ~done /\ hist[Len(hist)].op # "day" /\ hist' = Append(hist, [op |-> "day"]) /\ UNCHANGED <<cut, done>>
Cut == hist # <<>> /\ ~done /\ ~cut /\ cut' = TRUE /\ hist' = Append(hist, [op |-> "cut"]) /\ UNCHANGED done
\* C07: the history ends with one adversarial candidate definition (then an honest one)
Kinds == {"user_to_admin", "self_admin", "self_right", "self_user", "add_user", "self_uadmin", "drop_entry", "alter_entry", "honest"}
Attack == /\ WithAttack /\ hist # <<>> /\ ~done /\ done' = TRUE /\ Len(hist) >= MaxLen - 2
          /\ \E k \in Kinds, by \in {"u2", "u3"}, g \in {"g1", "g2"} :
               hist' = Append(hist, [op |-> "forge", kind |-> k, by |-> by, g |-> g, user |-> "u3"])
          /\ UNCHANGED cut
GNext == Def \/ Upd \/ Day \/ Cut \/ Attack
GSpec == GInit /\ [][GNext]_gvars
Emit == (IF WithAttack THEN ~done ELSE Len(hist) # MaxLen) \/ PrintT(<<"SCN", ToJson(hist)>>)
=============================================================================
