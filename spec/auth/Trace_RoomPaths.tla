--------------------------- MODULE Trace_RoomPaths ---------------------------
(* C10 on traces of real instances.  The abstract value of the room is      *)
(* built from the accepted room mutations of the trace (Auth.tla); at every *)
(* "roompaths" event the harness reports the decisions of the Room objects  *)
(* obtained through each construction path (live event, reload query +      *)
(* load_json, export + parse, import by another instance) by calling the    *)
(* real decision functions; every path must give exactly the decisions of   *)
(* the abstract room, and every restart must succeed.                       *)
EXTENDS Auth, Json, IOUtils, TLC
CONSTANTS KNOWN
Rec == ndJsonDeserialize(IOEnv.TRACE)
VARIABLES l, room, bad, devs, sid
tvars == <<l, room, bad, devs, sid>>
Ev == Rec[l]
NoRoom == [admins |-> <<>>, groups |-> <<>>]
Users == {"u1", "u2", "u3"}
Ents == {"A", "B"}

Entry(u, d, en) == [u |-> u, d |-> d, en |-> en]
SeqMap(s, Op(_)) == [i \in DOMAIN s |-> Op(s[i])]
\* an all-rows right implies the own-rows right (room.rs EntityRight::new)
Right(r, d) == [ent |-> r.ent, d |-> d, self |-> r.self \/ r.all, all |-> r.all]
NewRoom(ev) ==
    [admins |-> [i \in DOMAIN ev.admins |-> Entry(ev.admins[i], ev.now, TRUE)],
     groups |-> [i \in DOMAIN ev.groups |->
                   [g |-> ev.groups[i].g,
                    users |-> [j \in DOMAIN ev.groups[i].users |-> Entry(ev.groups[i].users[j], ev.now, TRUE)],
                    uadmins |-> [j \in DOMAIN ev.groups[i].uadmins |-> Entry(ev.groups[i].uadmins[j], ev.now, TRUE)],
                    rights |-> [j \in DOMAIN ev.groups[i].rights |-> Right(ev.groups[i].rights[j], ev.now)]]]]
GroupIndex(R, g) == CHOOSE i \in DOMAIN R.groups : R.groups[i].g = g
Updated(R, ev) ==
    IF ev.what = "admin" THEN [R EXCEPT !.admins = Append(@, Entry(ev.user, ev.now, ev.enabled))]
    ELSE LET i == GroupIndex(R, ev.g) IN
         IF ev.what = "user" THEN [R EXCEPT !.groups[i].users = Append(@, Entry(ev.user, ev.now, ev.enabled))]
         ELSE IF ev.what = "uadmin" THEN [R EXCEPT !.groups[i].uadmins = Append(@, Entry(ev.user, ev.now, ev.enabled))]
         ELSE [R EXCEPT !.groups[i].rights = Append(@, Right([ent |-> ev.ent, self |-> ev.self, all |-> ev.all], ev.now))]

Expected(R, dates) ==
    {k \in Users \X {"#admin"} \X dates \X {"is"} : IsAdmin(R, k[1], k[3])}
    \cup {k \in Users \X {"#member"} \X dates \X {"is"} : IsRoomMember(R, k[1], k[3])}
    \cup {k \in Users \X {"#uadmin"} \X dates \X {"is"} : \E G \in ToSet(R.groups) : IsUserAdmin(G, k[1], k[3])}
    \cup {k \in Users \X Ents \X dates \X {"self", "all"} : Can(R, k[1], k[2], k[3], k[4])}
Yes(path) == {<<y[1], y[2], y[3], y[4]>> : y \in ToSet(path.yes)}
PathBad(name, path, dates) ==
    IF "err" \in DOMAIN path THEN {<<name, "error", path.err>>}
    ELSE IF Yes(path) # Expected(room, dates)
         THEN {<<name, "decisions-differ", (Yes(path) \ Expected(room, dates)) \cup (Expected(room, dates) \ Yes(path))>>}
         ELSE {}
\* deviations of the code (RoomMerge): histories replayed newest first; right flags normalised on one path only
Attribute(o) == IF o[2] = "error" /\ o[3] = "invalid user date" THEN "NewestFirstReplay"
                ELSE "none"
Step == /\ l <= Len(Rec) /\ Ev.ev \notin {"begin", "end"} /\ l' = l + 1
        /\ room' = IF Ev.ev = "roomdef" /\ Ev.res = "ok" THEN NewRoom(Ev)
                   ELSE IF Ev.ev = "roomupd" /\ Ev.res = "ok" THEN Updated(room, Ev) ELSE room
        /\ LET dates == ToSet(Ev.dates)
               objs == IF Ev.ev = "roompaths" /\ Ev.res = "ok"
                       THEN PathBad("live", Ev.paths.live, dates) \cup PathBad("reload", Ev.paths.reload, dates)
                            \cup PathBad("export", Ev.paths.export, dates) \cup PathBad("import", Ev.paths.import, dates)
                            \cup (IF Ev.paths.restart # "ok" THEN {<<"restart", "error", Ev.paths.restart>>} ELSE {})
                            \cup (IF Ev.paths.import_restart # "ok" THEN {<<"import_restart", "error", Ev.paths.import_restart>>} ELSE {})
                       ELSE IF Ev.ev = "roompaths" THEN {<<"roompaths", "error", "harness">>} ELSE {}
           IN /\ bad' = bad \cup {<<"UNEXPLAINED", o[1], o[2]>> : o \in {x \in objs : Attribute(x) \notin KNOWN}}
              /\ devs' = devs \cup {Attribute(o) : o \in {x \in objs : Attribute(x) \in KNOWN}}
        /\ UNCHANGED sid
Begin == /\ l <= Len(Rec) /\ Ev.ev = "begin" /\ l' = l + 1 /\ sid' = Ev.sid /\ room' = NoRoom /\ bad' = {} /\ devs' = {}
End == /\ l <= Len(Rec) /\ Ev.ev = "end" /\ l' = l + 1 /\ PrintT(<<"DEVS", sid, devs>>) /\ UNCHANGED <<room, bad, devs, sid>>
TInit == l = 1 /\ room = NoRoom /\ bad = {} /\ devs = {} /\ sid = 0
TNext == Begin \/ Step \/ End
TSpec == TInit /\ [][TNext]_tvars
Monitors == \A o \in bad : o[1] # "UNEXPLAINED"
Reached == PrintT(<<"REACHED", TLCGet("stats").diameter - 1, Len(Rec)>>)
=============================================================================
