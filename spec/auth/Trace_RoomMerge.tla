--------------------------- MODULE Trace_RoomMerge ---------------------------
(* C07 on traces of real instances.  The abstract room is rebuilt from the  *)
(* honest mutations accepted on the defining instance (as in                *)
(* Trace_RoomPaths).  A "forge" event offers the receiving instance a       *)
(* candidate definition made of the honest export plus one adversarial      *)
(* change signed by a user; the decisions of the room the receiver ends     *)
(* with (both the stored definition and the in-memory one) must be those of *)
(* the honest history it had already imported, or of the honest history of  *)
(* the candidate - plus the added entry when its signer was entitled to add *)
(* it (an admin, or a user admin of the group for a user entry).            *)
EXTENDS Auth, Json, IOUtils, TLC
CONSTANTS KNOWN
Rec == ndJsonDeserialize(IOEnv.TRACE)
VARIABLES l, room, snap, bad, devs, sid,
          added,  \* entries legitimately added on the receiver by earlier candidates (their signer was entitled)
          kept    \* the room the receiver holds after it legitimately took a re-written entry (it then refuses the original for ever): {} or {room}
tvars == <<l, room, snap, bad, devs, sid, added, kept>>
Ev == Rec[l]
NoRoom == [admins |-> <<>>, groups |-> <<>>]
Users == {"u1", "u2", "u3"}
Ents == {"A", "B"}
Entry(u, d, en) == [u |-> u, d |-> d, en |-> en]
Right(r, d) == [ent |-> r.ent, d |-> d, self |-> r.self \/ r.all, all |-> r.all]
NewRoom(ev) ==
    [admins |-> [i \in DOMAIN ev.admins |-> Entry(ev.admins[i], ev.now, TRUE)],
     groups |-> [i \in DOMAIN ev.groups |->
                   [g |-> ev.groups[i].g,
                    users |-> [j \in DOMAIN ev.groups[i].users |-> Entry(ev.groups[i].users[j], ev.now, TRUE)],
                    uadmins |-> [j \in DOMAIN ev.groups[i].uadmins |-> Entry(ev.groups[i].uadmins[j], ev.now, TRUE)],
                    rights |-> [j \in DOMAIN ev.groups[i].rights |-> Right(ev.groups[i].rights[j], ev.now)]]]]
GroupIndex(R, g) == CHOOSE i \in DOMAIN R.groups : R.groups[i].g = g
Updated(R, ev) ==
    IF ev.what = "admin" THEN [R EXCEPT !.admins = Append(@, Entry(ev.user, ev.now, ev.enabled))]
    ELSE LET i == GroupIndex(R, ev.g) IN
         IF ev.what = "user" THEN [R EXCEPT !.groups[i].users = Append(@, Entry(ev.user, ev.now, ev.enabled))]
         ELSE IF ev.what = "uadmin" THEN [R EXCEPT !.groups[i].uadmins = Append(@, Entry(ev.user, ev.now, ev.enabled))]
         ELSE [R EXCEPT !.groups[i].rights = Append(@, Right([ent |-> ev.ent, self |-> ev.self, all |-> ev.all], ev.now))]
Expected(R, dates) ==
    {k \in Users \X {"#admin"} \X dates \X {"is"} : IsAdmin(R, k[1], k[3])}
    \cup {k \in Users \X {"#member"} \X dates \X {"is"} : IsRoomMember(R, k[1], k[3])}
    \cup {k \in Users \X {"#uadmin"} \X dates \X {"is"} : \E G \in ToSet(R.groups) : IsUserAdmin(G, k[1], k[3])}
    \cup {k \in Users \X Ents \X dates \X {"self", "all"} : Can(R, k[1], k[2], k[3], k[4])}
Yes(path) == {<<y[1], y[2], y[3], y[4]>> : y \in ToSet(path.yes)}

\* the entry a candidate adds, when its signer is entitled to add it at that date
AddEntry(R, a) ==
    LET i == GroupIndex(R, a.g)
        u == IF a.kind = "add_user" THEN a.user ELSE a.by
    IN CASE a.kind \in {"self_user", "add_user"} -> [R EXCEPT !.groups[i].users = Append(@, Entry(u, a.now, TRUE))]
         [] a.kind = "self_uadmin" -> [R EXCEPT !.groups[i].uadmins = Append(@, Entry(u, a.now, TRUE))]
         [] a.kind = "self_admin" -> [R EXCEPT !.admins = Append(@, Entry(u, a.now, TRUE))]
         [] a.kind = "self_right" -> [R EXCEPT !.groups[i].rights = Append(@, [ent |-> "*", d |-> a.now, self |-> TRUE, all |-> TRUE])]
         [] OTHER -> R
RECURSIVE Apply(_, _)
Apply(R, as) == IF as = <<>> THEN R ELSE Apply(AddEntry(R, Head(as)), Tail(as))
ThisEntry == [kind |-> Ev.kind, by |-> Ev.by, g |-> Ev.g, user |-> Ev.user, now |-> Ev.now]
Base(R) == IF R = NoRoom THEN R ELSE Apply(R, added)
Entitled(R) ==
    \/ Ev.kind \in {"self_user", "add_user"} /\ (IsAdmin(R, Ev.by, Ev.now) \/ IsUserAdmin(R.groups[GroupIndex(R, Ev.g)], Ev.by, Ev.now))
    \/ Ev.kind \in {"self_uadmin", "self_admin", "self_right"} /\ IsAdmin(R, Ev.by, Ev.now)
\* a candidate that omits the newest user entry of a group adds nothing: a receiver that did not hold that entry ends with the honest room without it
RemoveAt(sq, j) == [k \in 1..(Len(sq) - 1) |-> IF k < j THEN sq[k] ELSE sq[k + 1]]
WithoutNewestUser(R) ==
    LET i == GroupIndex(R, Ev.g)
        us == R.groups[i].users
        newest == {j \in DOMAIN us : \A k \in DOMAIN us : us[k].d <= us[j].d}
    IN {[R EXCEPT !.groups[i].users = RemoveAt(us, j)] : j \in newest}
Rewritten(R) ==
    LET i == GroupIndex(R, Ev.g)
        us == R.groups[i].users
        ok == {j \in DOMAIN us : IsAdmin(R, Ev.by, us[j].d) \/ IsUserAdmin(R.groups[i], Ev.by, us[j].d)}
    IN {[R EXCEPT !.groups[i].users[j].en = ~@] : j \in ok}
Allowed(dates) ==
    IF Ev.kind = "honest" THEN {Expected(Base(room), dates)} \cup {Expected(Base(R), dates) : R \in kept}
    ELSE {Expected(Base(snap), dates), Expected(Base(room), dates)}
         \cup (IF Entitled(Base(room)) THEN {Expected(AddEntry(Base(room), ThisEntry), dates)} ELSE {})
         \cup (IF Ev.kind = "drop_entry" /\ room # NoRoom THEN {Expected(Base(R), dates) : R \in WithoutNewestUser(room)} ELSE {})
         \* a user entry re-written by a key that was itself entitled to write a user entry of that group at the entry's date: a receiver
         \* that does not hold the original may take it as that key's entry (nothing it held is altered)
         \cup (IF Ev.kind = "alter_entry" /\ room # NoRoom THEN {Expected(Base(R), dates) : R \in Rewritten(room)} ELSE {})
ViewBad(name, path, dates) ==
    IF "err" \in DOMAIN path
    THEN (IF snap = NoRoom /\ Ev.out.verdict # "accepted" THEN {} ELSE {<<name, "error", Ev.kind, Ev.by>>})
    ELSE IF Yes(path) \notin Allowed(dates) THEN {<<name, "decisions-not-allowed", Ev.kind, Ev.by>>} ELSE {}
\* known deviation: the references that place an entry in a list are only signature-checked, so an entry signed by
\* an admin for the users list can be placed in the admin list by a reference anyone signs
\* (once that happened the receiver keeps the bogus admin, so the honest candidate that follows cannot give the honest decisions)
\* known deviation: a room never seen before is only checked for self-consistency, so an entry authorises itself
\* (guard: first import of the room, and the receiver ends with exactly the honest room plus that entry)
SelfAuthorised(name, dates) ==
    /\ snap = NoRoom /\ Ev.kind \in {"self_admin", "self_right", "self_user", "add_user", "self_uadmin"}
    /\ LET path == IF name = "stored" THEN Ev.out.stored ELSE Ev.out.live
       IN "err" \notin DOMAIN path /\ Yes(path) = Expected(AddEntry(Base(room), ThisEntry), dates)
Attribute(o) == IF o[3] = "user_to_admin" /\ o[2] = "decisions-not-allowed" THEN "PlacementAuthorUnchecked"
                ELSE IF o[2] = "decisions-not-allowed" /\ SelfAuthorised(o[1], ToSet(Ev.dates)) THEN "NewRoomAcceptsSelfAuthorisedEntries"
                ELSE IF o[3] = "honest" /\ o[2] = "decisions-not-allowed" /\ "NewRoomAcceptsSelfAuthorisedEntries" \in devs THEN "NewRoomAcceptsSelfAuthorisedEntries"
                ELSE IF o[3] = "honest" /\ o[2] = "decisions-not-allowed" /\ "PlacementAuthorUnchecked" \in devs THEN "PlacementAuthorUnchecked"
                ELSE "none"
Step == /\ l <= Len(Rec) /\ Ev.ev \notin {"begin", "end"} /\ l' = l + 1
        /\ room' = IF Ev.ev = "roomdef" /\ Ev.res = "ok" THEN NewRoom(Ev)
                   ELSE IF Ev.ev = "roomupd" /\ Ev.res = "ok" THEN Updated(room, Ev) ELSE room
        /\ LET dates == ToSet(Ev.dates)
               objs == IF Ev.ev = "forge" /\ Ev.res = "ok" /\ Ev.out.verdict # "n/a"
                       THEN ViewBad("stored", Ev.out.stored, dates) \cup ViewBad("live", Ev.out.live, dates)
                       ELSE IF Ev.ev = "forge" /\ Ev.res # "ok" THEN {<<"forge", "harness-error", Ev.kind, Ev.by>>} ELSE {}
           IN /\ bad' = bad \cup {<<"UNEXPLAINED", o[1], o[2], o[3], o[4]>> : o \in {x \in objs : Attribute(x) \notin KNOWN}}
              /\ devs' = devs \cup {Attribute(o) : o \in {x \in objs : Attribute(x) \in KNOWN}}
        \* what the receiver has imported honestly so far
        /\ snap' = IF Ev.ev = "offer" /\ Ev.res = "ok" THEN room
                   ELSE IF Ev.ev = "forge" /\ Ev.res = "ok" /\ "err" \notin DOMAIN Ev.out.stored
                           /\ Yes(Ev.out.stored) \in {Expected(Base(room), ToSet(Ev.dates)), Expected(AddEntry(Base(room), ThisEntry), ToSet(Ev.dates))} THEN room ELSE snap
        /\ added' = IF Ev.ev = "forge" /\ Ev.res = "ok" /\ Ev.kind # "honest" /\ "err" \notin DOMAIN Ev.out.stored /\ Entitled(Base(room))
                        /\ Yes(Ev.out.stored) = Expected(AddEntry(Base(room), ThisEntry), ToSet(Ev.dates))
                        /\ Yes(Ev.out.stored) # Expected(Base(room), ToSet(Ev.dates))
                     THEN Append(added, ThisEntry) ELSE added
        /\ kept' = IF Ev.ev = "forge" /\ Ev.res = "ok" /\ Ev.kind = "alter_entry" /\ "err" \notin DOMAIN Ev.out.stored /\ room # NoRoom
                       /\ Yes(Ev.out.stored) # Expected(Base(room), ToSet(Ev.dates))
                    THEN {R \in Rewritten(room) : Expected(Base(R), ToSet(Ev.dates)) = Yes(Ev.out.stored)} ELSE kept
        /\ UNCHANGED sid
Begin == /\ l <= Len(Rec) /\ Ev.ev = "begin" /\ l' = l + 1 /\ sid' = Ev.sid /\ room' = NoRoom /\ snap' = NoRoom /\ bad' = {} /\ devs' = {} /\ added' = <<>> /\ kept' = {}
End == /\ l <= Len(Rec) /\ Ev.ev = "end" /\ l' = l + 1 /\ PrintT(<<"DEVS", sid, devs>>) /\ UNCHANGED <<room, snap, bad, devs, sid, added, kept>>
TInit == l = 1 /\ room = NoRoom /\ snap = NoRoom /\ bad = {} /\ devs = {} /\ sid = 0 /\ added = <<>> /\ kept = {}
TNext == Begin \/ Step \/ End
TSpec == TInit /\ [][TNext]_tvars
Monitors == \A o \in bad : o[1] # "UNEXPLAINED"
Reached == PrintT(<<"REACHED", TLCGet("stats").diameter - 1, Len(Rec)>>)
=============================================================================
