--------------------------- MODULE Gen_RoomSigner ---------------------------
(* Directed histories for C10: an entry written by a second actor (u3, on   *)
(* its own instance) while it holds a role, read later by everybody else -  *)
(* after the actor may have lost the role and after the same or another     *)
(* part of the room has changed again - by an importer that holds an        *)
(* earlier version (the cut) and by one that holds none.  The product       *)
(*   role of the actor x what it writes x does it lose the role x what      *)
(*   changes afterwards x where the earlier export is taken                 *)
(* one scenario per initial state.                                          *)
EXTENDS Naturals, Sequences, TLC, Json
VARIABLE hist
R(e, s, a) == [ent |-> e, self |-> s, all |-> a]
U(p, g, what, user, en, e, s, a) == [op |-> "roomupd", p |-> p, room |-> "R1", g |-> g, what |-> what, user |-> user, enabled |-> en, ent |-> e, self |-> s, all |-> a]
Def == [op |-> "roomdef", p |-> "p1", room |-> "R1", admins |-> <<"u1">>,
        groups |-> << [g |-> "g1", rights |-> <<R("A", TRUE, FALSE)>>, users |-> <<>>, uadmins |-> <<>>],
                      [g |-> "g2", rights |-> <<R("B", TRUE, TRUE)>>, users |-> <<"u3">>, uadmins |-> <<>>] >>]
Day == [op |-> "day"]
Cut == [op |-> "cut"]
Roles == {"admin", "uadmin"}
Grant(role) == U("p1", "g1", role, "u3", TRUE, "A", TRUE, FALSE)
Revoke(role) == U("p1", "g1", role, "u3", FALSE, "A", TRUE, FALSE)
\* what the actor writes on its own instance
Acts == {"user", "user-off", "right", "uadmin", "admin"}
Act(a) == CASE a = "user" -> U("p3", "g1", "user", "u2", TRUE, "A", TRUE, FALSE)
            [] a = "user-off" -> U("p3", "g2", "user", "u3", FALSE, "A", TRUE, FALSE)
            [] a = "right" -> U("p3", "g1", "right", "u2", TRUE, "A", TRUE, TRUE)
            [] a = "uadmin" -> U("p3", "g1", "uadmin", "u2", TRUE, "A", TRUE, FALSE)
            [] a = "admin" -> U("p3", "g1", "admin", "u2", TRUE, "A", TRUE, FALSE)
\* what the creator changes afterwards
Afters == {"none", "same-group-right", "same-group-user", "other-group", "admins"}
After(x) == CASE x = "none" -> <<>>
              [] x = "same-group-right" -> <<U("p1", "g1", "right", "u2", TRUE, "B", TRUE, FALSE)>>
              [] x = "same-group-user" -> <<U("p1", "g1", "user", "u3", TRUE, "A", TRUE, FALSE)>>
              [] x = "other-group" -> <<U("p1", "g2", "right", "u2", TRUE, "A", FALSE, TRUE)>>
              [] x = "admins" -> <<U("p1", "g1", "admin", "u2", TRUE, "A", TRUE, FALSE)>>
CutAt == {"after-def", "after-grant", "after-act", "after-revoke", "never"}
C(where, here) == IF where = here THEN <<Cut>> ELSE <<>>
Scenario(role, a, lose, x, w) ==
    <<Def>> \o C(w, "after-def") \o <<Day, Grant(role)>> \o C(w, "after-grant") \o <<Day, Act(a)>> \o C(w, "after-act")
    \o (IF lose THEN <<Day, Revoke(role)>> ELSE <<>>) \o C(w, "after-revoke") \o <<Day>> \o After(x)
Init == \E role \in Roles, a \in Acts, lose \in BOOLEAN, x \in Afters, w \in CutAt :
          /\ (w = "after-revoke" => lose)
          /\ hist = Scenario(role, a, lose, x, w)
Next == UNCHANGED hist
Spec == Init /\ [][Next]_hist
Emit == PrintT(<<"SCN", ToJson(hist)>>)
=============================================================================
