----------------------------- MODULE Trace_Ingest -----------------------------
(* C02 on traces of a real instance that ingests rows built by the harness  *)
(* (which holds every user's signing key and can therefore produce any      *)
(* validly signed, replayed, misplaced or tampered row).  For every item of *)
(* an "inject" event the specification decides, from the room definitions   *)
(* the instance holds and its rows before the event, whether the item may   *)
(* be stored; an item that is stored although it may not is a violation.    *)
EXTENDS Auth, Json, IOUtils, TLC
CONSTANTS KNOWN
Rec == ndJsonDeserialize(IOEnv.TRACE)
VARIABLES l, st, peers, bad, devs, sid
tvars == <<l, st, peers, bad, devs, sid>>
Ev == Rec[l]
Empty == [nodes |-> <<>>, edges |-> <<>>, ntombs |-> <<>>, etombs |-> <<>>, log |-> <<>>]
T == Ev.to
D == Ev.defs[T]
Nodes(s) == ToSet(s[T].nodes)
HasRow(s, x) == \E n \in Nodes(s) : n.row = x
RowAt(s, x) == CHOOSE n \in Nodes(s) : n.row = x
CanIn(r, u, e, d, right) == r \in DOMAIN D /\ Can(D[r], u, e, d, right)
Need(s, x, u) == IF HasRow(s, x) /\ RowAt(s, x).au # u THEN "all" ELSE "self"

NodeMay(it) == /\ it.tamper = "none" /\ it.stated = Ev.room
               /\ CanIn(it.stated, it.author, it.ent, it.d, Need(st, it.row, it.author))
               /\ (HasRow(st, it.row) /\ RowAt(st, it.row).room # it.stated
                     => CanIn(RowAt(st, it.row).room, it.author, it.ent, it.d, Need(st, it.row, it.author)))
NodeStored(s, it) == \E n \in Nodes(s) : n.row = it.row /\ n.m = it.d /\ n.au = it.author
\* a reference belongs to the room being synchronised when its source row does
EdgeMay(it) == /\ it.tamper = "none" /\ HasRow(st, it.src) /\ RowAt(st, it.src).room = Ev.room
               /\ CanIn(Ev.room, it.author, it.ent, it.d, "self")
EdgeStored(s, it) == \E e \in ToSet(s[T].edges) : e.src = it.src /\ e.dst = it.dst /\ e.c = it.d /\ e.au = it.author
NTombMay(it) == /\ it.tamper = "none"
                /\ CanIn(it.stated, it.author, it.ent, it.d, Need(st, it.row, it.author))
NTombStored(s, it) == \E t \in ToSet(s[T].ntombs) : t.row = it.row /\ t.d = it.d /\ t.au = it.author
ETombMay(it) ==
    /\ it.tamper = "none"
    /\ LET es == {e \in ToSet(st[T].edges) : e.src = it.src /\ e.dst = it.dst}
       IN CanIn(it.stated, it.author, it.ent, it.d, IF \E e \in es : e.au # it.author THEN "all" ELSE "self")
ETombStored(s, it) == \E t \in ToSet(s[T].etombs) : t.src = it.src /\ t.dst = it.dst /\ t.d = it.d

May(it) == CASE it.kind = "node" -> NodeMay(it) [] it.kind = "edge" -> EdgeMay(it) [] it.kind = "ntomb" -> NTombMay(it) [] OTHER -> ETombMay(it)
Stored(s, it) == CASE it.kind = "node" -> NodeStored(s, it) [] it.kind = "edge" -> EdgeStored(s, it) [] it.kind = "ntomb" -> NTombStored(s, it) [] OTHER -> ETombStored(s, it)
\* a deletion record must not remove a row whose room it does not name
WrongRoomDelete(s1, it) == it.kind = "ntomb" /\ HasRow(st, it.row) /\ ~HasRow(s1, it.row) /\ RowAt(st, it.row).room # it.stated

\* deviation: an edge is checked against the room being synchronised only (author, entity, date), never
\* against the room of its source row (authorisation_service.rs AddEdges)
Attribute(it) == IF it.kind = "edge" /\ it.tamper = "none" /\ CanIn(Ev.room, it.author, it.ent, it.d, "self")
                    /\ ~(HasRow(st, it.src) /\ RowAt(st, it.src).room = Ev.room) THEN "EdgeSourceRoomUnchecked"
                 ELSE "none"

Step == /\ l <= Len(Rec) /\ Ev.ev \notin {"begin", "end"} /\ l' = l + 1
        /\ LET s1 == [p \in peers |-> Ev.st[p]]
               objs == IF Ev.ev = "inject" /\ Ev.res = "ok"
                       THEN {<<"stored-although-it-may-not", it.kind, it, Attribute(it)>> : it \in {i \in ToSet(Ev.items) : Stored(s1, i) /\ ~May(i)}}
                            \cup {<<"row-deleted-by-record-of-another-room", it.kind, it, "none">> : it \in {i \in ToSet(Ev.items) : WrongRoomDelete(s1, i)}}
                       ELSE {}
           IN /\ st' = s1
              /\ bad' = bad \cup {<<"UNEXPLAINED", o[1], o[3].kind, o[3].author, o[3].d, o[3].tamper>> : o \in {x \in objs : x[4] \notin KNOWN}}
              /\ devs' = devs \cup {o[4] : o \in {x \in objs : x[4] \in KNOWN}}
        /\ UNCHANGED <<peers, sid>>
Begin == /\ l <= Len(Rec) /\ Ev.ev = "begin" /\ l' = l + 1 /\ peers' = ToSet(Ev.peers) /\ sid' = Ev.sid
         /\ st' = [p \in ToSet(Ev.peers) |-> Empty] /\ bad' = {} /\ devs' = {}
End == /\ l <= Len(Rec) /\ Ev.ev = "end" /\ l' = l + 1 /\ PrintT(<<"DEVS", sid, devs>>) /\ UNCHANGED <<st, peers, bad, devs, sid>>
TInit == l = 1 /\ st = <<>> /\ peers = {} /\ bad = {} /\ devs = {} /\ sid = 0
TNext == Begin \/ Step \/ End
TSpec == TInit /\ [][TNext]_tvars
Monitors == \A o \in bad : o[1] # "UNEXPLAINED"
Reached == PrintT(<<"REACHED", TLCGet("stats").diameter - 1, Len(Rec)>>)
=============================================================================
