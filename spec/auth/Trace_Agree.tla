----------------------------- MODULE Trace_Agree -----------------------------
(* C12 on traces of real instances: after every local operation of a user   *)
(* the harness offers everything the author's instance stores for the room  *)
(* to a witness instance through the ingestion entry points of the          *)
(* synchronisation (definition first, then deletion records, rows,          *)
(* references).  If the two instances hold the same definition of a room,   *)
(* every row version and deletion record the author's instance stores for  *)
(* that room must then be stored by the witness too (unless the witness has *)
(* a newer version or a deletion of that row): what the local path accepted *)
(* the synchronisation path accepts.                                        *)
EXTENDS Auth, Json, IOUtils, TLC
CONSTANTS KNOWN
Rec == ndJsonDeserialize(IOEnv.TRACE)
VARIABLES l, peers, bad, devs, sid,
          prev,    \* the stores observed at the previous event
          prior,   \* row -> author of the version the acting instance held before its last local operation on the row ("none": no version)
          lastop   \* <<p, row>> of the local operation that the current offers follow (<<>>: none)
tvars == <<l, peers, bad, devs, sid, prev, prior, lastop>>
Ev == Rec[l]
NKey(n) == <<n.row, n.ent, n.room, n.m, n.s, n.au, n.text>>
Nodes(p) == ToSet(Ev.st[p].nodes)
Tombs(p) == ToSet(Ev.st[p].ntombs)
SameDef(p, w, r) == r \in DOMAIN Ev.defs[p] /\ r \in DOMAIN Ev.defs[w] /\ Ev.defs[p][r] = Ev.defs[w][r]
Newer(m1, s1, m2, s2) == m1 > m2 \/ (m1 = m2 /\ s1 > s2)
AuthorIn(s, q, x) == LET S == {k \in ToSet(s[q].nodes) : k.row = x} IN IF S = {} THEN "none" ELSE (CHOOSE k \in S : TRUE).au
\* the kind of change (own row, somebody else's row, new row) is part of what must be equal: the verdicts are compared only when
\* the witness held, before the offer, a version of the row by the same author as the one the acting instance held before its operation
SameKind(w, x) == x \in DOMAIN prior => AuthorIn(prev, w, x) = prior[x]
\* what is compared is the write just made, decided with the definition both sides hold now: older rows of the instance were
\* accepted under the definition it held then
JustWritten(p, x) == lastop = <<p, x>>
\* the witness w has pulled room r from p
Missing(w, p, r) ==
    {<<"row-refused-by-peer", p, w, n.row>> : n \in {m \in Nodes(p) : m.room = r /\ NKey(m) \notin {NKey(k) : k \in Nodes(w)} /\ SameKind(w, m.row) /\ JustWritten(p, m.row)
                                               /\ ~(\E k \in Nodes(w) : k.row = m.row /\ Newer(k.m, k.s, m.m, m.s))
                                               /\ ~(\E t \in Tombs(w) : t.row = m.row /\ t.m >= m.m)}}
    \cup {<<"deletion-refused-by-peer", p, w, t.row>> : t \in {u \in Tombs(p) : u.room = r /\ JustWritten(p, u.row) /\ <<u.row, u.m, u.d, u.s>> \notin {<<k.row, k.m, k.d, k.s>> : k \in Tombs(w)}}}
Step == /\ l <= Len(Rec) /\ Ev.ev \notin {"begin", "end"} /\ l' = l + 1
        /\ LET objs == IF Ev.ev = "offer" /\ Ev.res = "ok" /\ SameDef(Ev.from, Ev.to, Ev.room)
                       THEN Missing(Ev.to, Ev.from, Ev.room) ELSE {}
           IN /\ bad' = bad \cup {<<"UNEXPLAINED", o>> : o \in objs}
              /\ UNCHANGED devs
        /\ prev' = [q \in peers |-> Ev.st[q]]
        /\ prior' = IF Ev.ev \in {"put", "move", "del", "ref", "unref"} /\ "row" \in DOMAIN Ev
                     THEN [x \in DOMAIN prior \cup {Ev.row} |-> IF x = Ev.row THEN AuthorIn(prev, Ev.p, Ev.row) ELSE prior[x]]
                     ELSE prior
        /\ lastop' = IF Ev.ev \in {"put", "move", "del", "ref", "unref"} /\ "row" \in DOMAIN Ev THEN <<Ev.p, Ev.row>>
                      ELSE IF Ev.ev = "offer" THEN lastop ELSE <<>>
        /\ UNCHANGED <<peers, sid>>
Begin == /\ l <= Len(Rec) /\ Ev.ev = "begin" /\ l' = l + 1 /\ peers' = ToSet(Ev.peers) /\ sid' = Ev.sid /\ bad' = {} /\ devs' = {}
         /\ prev' = [q \in ToSet(Ev.peers) |-> [nodes |-> <<>>]] /\ prior' = <<>> /\ lastop' = <<>>
End == /\ l <= Len(Rec) /\ Ev.ev = "end" /\ l' = l + 1 /\ PrintT(<<"DEVS", sid, devs>>) /\ UNCHANGED <<peers, bad, devs, sid, prev, prior, lastop>>
TInit == l = 1 /\ peers = {} /\ bad = {} /\ devs = {} /\ sid = 0 /\ prev = <<>> /\ prior = <<>> /\ lastop = <<>>
TNext == Begin \/ Step \/ End
TSpec == TInit /\ [][TNext]_tvars
Monitors == \A o \in bad : o[1] # "UNEXPLAINED"
Reached == PrintT(<<"REACHED", TLCGet("stats").diameter - 1, Len(Rec)>>)
=============================================================================
