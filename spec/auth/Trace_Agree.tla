----------------------------- MODULE Trace_Agree -----------------------------
(* C12 on traces of real instances: after every local operation of a user   *)
(* the harness offers everything the author's instance stores for the room  *)
(* to a witness instance through the ingestion entry points of the          *)
(* synchronisation (definition first, then deletion records, rows,          *)
(* references).  If the two instances hold the same definition of a room,   *)
(* every row version and deletion record the author's instance stores for  *)
(* that room must then be stored by the witness too (unless the witness has *)
(* a newer version or a deletion of that row): what the local path accepted *)
(* the synchronisation path accepts.                                        *)
EXTENDS Auth, Json, IOUtils, TLC
CONSTANTS KNOWN
Rec == ndJsonDeserialize(IOEnv.TRACE)
VARIABLES l, peers, bad, devs, sid
tvars == <<l, peers, bad, devs, sid>>
Ev == Rec[l]
NKey(n) == <<n.row, n.ent, n.room, n.m, n.s, n.au, n.text>>
Nodes(p) == ToSet(Ev.st[p].nodes)
Tombs(p) == ToSet(Ev.st[p].ntombs)
SameDef(p, w, r) == r \in DOMAIN Ev.defs[p] /\ r \in DOMAIN Ev.defs[w] /\ Ev.defs[p][r] = Ev.defs[w][r]
Newer(m1, s1, m2, s2) == m1 > m2 \/ (m1 = m2 /\ s1 > s2)
\* the witness w has pulled room r from p
Missing(w, p, r) ==
    {<<"row-refused-by-peer", p, w, n.row>> : n \in {m \in Nodes(p) : m.room = r /\ NKey(m) \notin {NKey(k) : k \in Nodes(w)}
                                               /\ ~(\E k \in Nodes(w) : k.row = m.row /\ Newer(k.m, k.s, m.m, m.s))
                                               /\ ~(\E t \in Tombs(w) : t.row = m.row /\ t.m >= m.m)}}
    \cup {<<"deletion-refused-by-peer", p, w, t.row>> : t \in {u \in Tombs(p) : u.room = r /\ <<u.row, u.m, u.d, u.s>> \notin {<<k.row, k.m, k.d, k.s>> : k \in Tombs(w)}}}
Step == /\ l <= Len(Rec) /\ Ev.ev \notin {"begin", "end"} /\ l' = l + 1
        /\ LET objs == IF Ev.ev = "offer" /\ Ev.res = "ok" /\ SameDef(Ev.from, Ev.to, Ev.room)
                       THEN Missing(Ev.to, Ev.from, Ev.room) ELSE {}
           IN /\ bad' = bad \cup {<<"UNEXPLAINED", o>> : o \in objs}
              /\ UNCHANGED devs
        /\ UNCHANGED <<peers, sid>>
Begin == /\ l <= Len(Rec) /\ Ev.ev = "begin" /\ l' = l + 1 /\ peers' = ToSet(Ev.peers) /\ sid' = Ev.sid /\ bad' = {} /\ devs' = {}
End == /\ l <= Len(Rec) /\ Ev.ev = "end" /\ l' = l + 1 /\ PrintT(<<"DEVS", sid, devs>>) /\ UNCHANGED <<peers, bad, devs, sid>>
TInit == l = 1 /\ peers = {} /\ bad = {} /\ devs = {} /\ sid = 0
TNext == Begin \/ Step \/ End
TSpec == TInit /\ [][TNext]_tvars
Monitors == \A o \in bad : o[1] # "UNEXPLAINED"
Reached == PrintT(<<"REACHED", TLCGet("stats").diameter - 1, Len(Rec)>>)
=============================================================================
