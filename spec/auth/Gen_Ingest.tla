----------------------------- MODULE Gen_Ingest -----------------------------
(* Exhaustive generator for C02: every single item an adversary can put in  *)
(* a synchronisation answer, over a small universe: kind x target row x     *)
(* stated room x room being synchronised x signing key x date x tampering.  *)
(* One scenario per initial state; the fixed preparation (two rooms, rows   *)
(* of two authors, a reference, a member disabled later) is added by the    *)
(* driver.                                                                  *)
EXTENDS Naturals, Sequences, TLC, Json
VARIABLES hist
Rows == {"x1", "x2", "x4", "x5", "x9"}       \* x1 (u1, R1)  x2 (u2, R1)  x4 (u1, R2)  x5 (u2, R2)  x9 new
Rooms == {"R1", "R2"}
Authors == {"u2", "u3"}
Dates == {30, 60, 5}                          \* 30: u2 enabled in R1; 60: u2 disabled in R1; 5: before the rooms exist
Node == {[kind |-> "node", row |-> r, ent |-> "A", stated |-> s, author |-> a, d |-> d, tamper |-> t, text |-> "forged"] :
            r \in Rows, s \in Rooms, a \in Authors, d \in Dates, t \in {"none", "field", "sig", "model", "entity"}}
NodeItems == {n \in Node : n.tamper = "none" \/ n.d = 30}
EdgeItems == {[kind |-> "edge", src |-> r, dst |-> IF r = "x1" THEN "x2" ELSE "x1", ent |-> "A", author |-> a, d |-> d, tamper |-> t] :
            r \in {"x1", "x2", "x4", "x5"}, a \in Authors, d \in {30, 60}, t \in {"none", "sig", "field"}}
NTombItems == {[kind |-> "ntomb", row |-> r, ent |-> "A", stated |-> s, author |-> a, d |-> d, tamper |-> t] :
            r \in {"x1", "x2", "x4", "x5"}, s \in Rooms, a \in Authors, d \in {30, 60}, t \in {"none", "sig"}}
ETombItems == {[kind |-> "etomb", src |-> "x2", dst |-> "x1", ent |-> "A", stated |-> s, author |-> a, d |-> d, tamper |-> t] :
            s \in Rooms, a \in Authors, d \in {30, 60}, t \in {"none", "sig"}}
Init == \E it \in NodeItems \cup EdgeItems \cup NTombItems \cup ETombItems, sync \in Rooms :
          hist = <<[op |-> "inject", to |-> "p1", room |-> sync, items |-> <<it>>]>>
Next == UNCHANGED hist
Spec == Init /\ [][Next]_hist
Emit == PrintT(<<"SCN", ToJson(hist)>>)
=============================================================================
