----------------------------- MODULE Trace_Serve -----------------------------
(* C08 on traces of the real serving loop (InboundQueryService) of an       *)
(* instance, driven by the harness as an adversarial remote peer.  Every    *)
(* answer is decoded and the rooms whose data it carries are named; a room  *)
(* may appear only if the connection is authenticated and the authenticated *)
(* key is a member of the room at the time of the request (Auth.tla on the  *)
(* definitions the server holds), and rows may only come from the room the  *)
(* request names.                                                           *)
EXTENDS Auth, Json, IOUtils, TLC
CONSTANTS KNOWN
Rec == ndJsonDeserialize(IOEnv.TRACE)
VARIABLES l, was, bad, devs, sid
tvars == <<l, was, bad, devs, sid>>
Ev == Rec[l]
D == Ev.defs[Ev.server]
MemberNow(r, u) == u # "" /\ r \in DOMAIN D /\ IsRoomMember(D[r], u, Ev.now)
RealRooms(a) == {r \in ToSet(a.rooms) : r \in {"R1", "R2", "R3", "R4"}}
Leaks(a) == {<<"served-to-non-member", a.q, r, Ev.as>> : r \in {x \in RealRooms(a) : ~MemberNow(x, Ev.as)}}
            \cup (IF a.q \in {"Nodes", "Edges", "RoomDailyNodes", "NodeDeletionLog", "EdgeDeletionLog", "RoomLog", "RoomLogAt", "RoomNode"}
                  THEN {<<"row-of-another-room", a.q, r, Ev.as>> : r \in {x \in RealRooms(a) : x # a.room}} ELSE {})
            \cup (IF "#fingerprint" \in ToSet(a.rooms) THEN {<<"fingerprint-served", a.q, "#", Ev.as>>} ELSE {})
\* known deviation: the rooms a connection may ask for only grow while it lasts, and a room is added again on a
\* definition change as soon as the key has any entry in it, enabled or not
Attribute(o) == IF o[1] = "served-to-non-member" /\ <<o[3], o[4]>> \in was THEN "FormerMemberStillServed" ELSE "none"
Step == /\ l <= Len(Rec) /\ Ev.ev \notin {"begin", "end"} /\ l' = l + 1
        /\ LET objs == IF Ev.ev = "serve" /\ Ev.res = "ok" THEN UNION {Leaks(a) : a \in ToSet(Ev.answers)}
                       ELSE IF Ev.ev = "serve" THEN {<<"harness-error", "serve", "#", "#">>} ELSE {}
           IN /\ bad' = bad \cup {<<"UNEXPLAINED", o[1], o[2], o[3], o[4]>> : o \in {x \in objs : Attribute(x) \notin KNOWN}}
              /\ devs' = devs \cup {Attribute(o) : o \in {x \in objs : Attribute(x) \in KNOWN}}
        \* <<room, user>> pairs that were members at some earlier moment of the scenario
        /\ was' = IF "defs" \in DOMAIN Ev /\ "p1" \in DOMAIN Ev.defs
                  THEN was \cup {<<r, u>> \in {"R1", "R2", "R3", "R4"} \X {"u2", "u3"} : r \in DOMAIN Ev.defs["p1"] /\ IsRoomMember(Ev.defs["p1"][r], u, Ev.now)}
                  ELSE was
        /\ UNCHANGED sid
Begin == /\ l <= Len(Rec) /\ Ev.ev = "begin" /\ l' = l + 1 /\ sid' = Ev.sid /\ was' = {} /\ bad' = {} /\ devs' = {}
End == /\ l <= Len(Rec) /\ Ev.ev = "end" /\ l' = l + 1 /\ PrintT(<<"DEVS", sid, devs>>) /\ UNCHANGED <<was, bad, devs, sid>>
TInit == l = 1 /\ was = {} /\ bad = {} /\ devs = {} /\ sid = 0
TNext == Begin \/ Step \/ End
TSpec == TInit /\ [][TNext]_tvars
Monitors == \A o \in bad : o[1] # "UNEXPLAINED"
Reached == PrintT(<<"REACHED", TLCGet("stats").diameter - 1, Len(Rec)>>)
=============================================================================
