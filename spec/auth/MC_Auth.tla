------------------------------ MODULE MC_Auth ------------------------------
(* Exhaustive check of the decision function of Auth.tla over every room    *)
(* history of a small universe: a room whose lists are append-only in date  *)
(* (the entry-adding rule of authorisation_service.rs:740-975) never        *)
(* changes a decision about a date that is already past, so a row accepted  *)
(* at its date stays acceptable for every peer that verifies it later (the  *)
(* assumption behind C02, C10 and C12).                                     *)
EXTENDS Auth, TLC
CONSTANTS MaxDate, MaxEntries
VARIABLES room, clock, past, n
vars == <<room, clock, past, n>>
Users == {"u1", "u2"}
Ents == {"A", "B"}
Rights == {"self", "all"}
Keys == Users \X Ents \X (0..MaxDate) \X Rights
Init == /\ room = [admins |-> <<[u |-> "u1", d |-> 0, en |-> TRUE]>>,
                   groups |-> <<[g |-> "g1", users |-> <<>>, uadmins |-> <<>>, rights |-> <<>>]>>]
        /\ clock = 0 /\ past = <<>> /\ n = 0
AddUser == \E u \in Users, en \in BOOLEAN, list \in {"users", "uadmins"} :
             /\ n < MaxEntries /\ n' = n + 1
             /\ room' = [room EXCEPT !.groups[1][list] = Append(@, [u |-> u, d |-> clock, en |-> en])]
             /\ UNCHANGED <<clock, past>>
AddAdmin == \E u \in Users, en \in BOOLEAN :
             /\ n < MaxEntries /\ n' = n + 1
             /\ room' = [room EXCEPT !.admins = Append(@, [u |-> u, d |-> clock, en |-> en])]
             /\ UNCHANGED <<clock, past>>
AddRight == \E e \in Ents \cup {"*"}, s \in BOOLEAN, a \in BOOLEAN :
             /\ n < MaxEntries /\ n' = n + 1
             /\ room' = [room EXCEPT !.groups[1].rights = Append(@, [ent |-> e, d |-> clock, self |-> s \/ a, all |-> a])]
             /\ UNCHANGED <<clock, past>>
\* the day ends: every decision about it is now history
Tick == /\ clock < MaxDate /\ clock' = clock + 1
        /\ past' = [k \in (DOMAIN past) \cup {x \in Keys : x[3] = clock} |->
                      IF k \in DOMAIN past THEN past[k] ELSE Can(room, k[1], k[2], k[3], k[4])]
        /\ UNCHANGED <<room, n>>
Next == AddUser \/ AddAdmin \/ AddRight \/ Tick
Spec == Init /\ [][Next]_vars
PastIsImmutable == \A k \in DOMAIN past : Can(room, k[1], k[2], k[3], k[4]) = past[k]
AllImpliesSelf == \A k \in Keys : Can(room, k[1], k[2], k[3], "all") => Can(room, k[1], k[2], k[3], "self")
=============================================================================
