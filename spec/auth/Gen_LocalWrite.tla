--------------------------- MODULE Gen_LocalWrite ---------------------------
(* Scenario generator for C01 / C12: two rooms whose definitions are drawn  *)
(* from a menu of right and membership configurations, three users, and     *)
(* sequences of every local operation shape (create, update own / foreign,  *)
(* move, reference add / remove, deletions, room updates), with pulls that  *)
(* carry rows and definitions between the users' instances.                 *)
EXTENDS Naturals, Sequences, FiniteSets, TLC, Json
CONSTANTS MaxLen
VARIABLES has, where, defined, hist
gvars == <<has, where, defined, hist>>
Peer == {"p1", "p2", "p3"}
UserOf(p) == IF p = "p1" THEN "u1" ELSE IF p = "p2" THEN "u2" ELSE "u3"
Row == {"x1", "x2", "x3"}
EntOf(x) == IF x = "x3" THEN "B" ELSE "A"
Room == {"R1", "R2"}
R(e, s, a) == [ent |-> e, self |-> s, all |-> a]
RightSets == { <<>>, <<R("A", TRUE, FALSE)>>, <<R("A", TRUE, TRUE)>>, <<R("*", TRUE, FALSE)>>, <<R("*", TRUE, TRUE)>>,
               <<R("*", TRUE, TRUE), R("A", FALSE, FALSE)>>, <<R("A", TRUE, TRUE), R("B", TRUE, FALSE)>>, <<R("B", TRUE, TRUE)>> }
UserSets == { <<>>, <<"u2">>, <<"u3">>, <<"u2", "u3">> }
GInit == has = [p \in Peer |-> {}] /\ where = [x \in Row |-> "none"] /\ defined = {} /\ hist = <<>>
H(m) == hist' = Append(hist, m)
RoomDef(r) == /\ r \notin defined /\ defined' = defined \cup {r}
              /\ \E r1 \in RightSets, u1 \in UserSets, r2 \in RightSets, u2 \in UserSets, ua \in {<<>>, <<"u2">>, <<"u3">>} :
                   H([op |-> "roomdef", p |-> "p1", room |-> r, admins |-> <<"u1">>,
                      groups |-> << [g |-> "g1", rights |-> r1, users |-> u1, uadmins |-> ua],
                                    [g |-> "g2", rights |-> r2, users |-> u2, uadmins |-> <<>>] >>])
              /\ UNCHANGED <<has, where>>
Ready == defined = Room
Put(p, x, r) == /\ Ready /\ (where[x] = "none" \/ x \in has[p])
                /\ has' = [has EXCEPT ![p] = @ \cup {x}] /\ where' = [where EXCEPT ![x] = IF where[x] = "none" THEN r ELSE @]
                /\ H([op |-> "put", p |-> p, row |-> x, ent |-> EntOf(x), room |-> r]) /\ UNCHANGED defined
Move(p, x, r) == /\ Ready /\ x \in has[p] /\ where[x] # r
                 /\ where' = [where EXCEPT ![x] = r] /\ H([op |-> "move", p |-> p, row |-> x, ent |-> EntOf(x), room |-> r])
                 /\ UNCHANGED <<has, defined>>
Del(p, x) == /\ Ready /\ x \in has[p] /\ has' = [has EXCEPT ![p] = @ \ {x}]
             /\ H([op |-> "del", p |-> p, row |-> x, ent |-> EntOf(x)]) /\ UNCHANGED <<where, defined>>
Ref(p, x, y, un) == /\ Ready /\ x \in has[p] /\ y \in has[p] /\ x # y
                    /\ H([op |-> IF un THEN "unref" ELSE "ref", p |-> p, row |-> x, to |-> y, ent |-> EntOf(x), tent |-> EntOf(y)])
                    /\ UNCHANGED <<has, where, defined>>
Ship(p, q) == /\ Ready /\ p # q /\ has' = [has EXCEPT ![p] = @ \cup has[q]]
              /\ H([op |-> "ship", p |-> p, q |-> q]) /\ UNCHANGED <<where, defined>>
UpdMenu == { [g |-> "g1", what |-> "user", user |-> "u2", enabled |-> FALSE, ent |-> "A", self |-> TRUE, all |-> FALSE],
             [g |-> "g1", what |-> "user", user |-> "u2", enabled |-> TRUE, ent |-> "A", self |-> TRUE, all |-> FALSE],
             [g |-> "g2", what |-> "user", user |-> "u3", enabled |-> TRUE, ent |-> "A", self |-> TRUE, all |-> FALSE],
             [g |-> "g1", what |-> "uadmin", user |-> "u2", enabled |-> TRUE, ent |-> "A", self |-> TRUE, all |-> FALSE],
             [g |-> "g1", what |-> "admin", user |-> "u3", enabled |-> TRUE, ent |-> "A", self |-> TRUE, all |-> FALSE],
             [g |-> "g1", what |-> "right", user |-> "u2", enabled |-> TRUE, ent |-> "A", self |-> FALSE, all |-> FALSE],
             [g |-> "g1", what |-> "right", user |-> "u2", enabled |-> TRUE, ent |-> "A", self |-> TRUE, all |-> TRUE],
             [g |-> "g2", what |-> "right", user |-> "u2", enabled |-> TRUE, ent |-> "*", self |-> TRUE, all |-> FALSE] }
RoomUpd(p, r) == /\ Ready
                 /\ \E m \in UpdMenu :
                      H([op |-> "roomupd", p |-> p, room |-> r, g |-> m.g, what |-> m.what, user |-> m.user, enabled |-> m.enabled,
                         ent |-> m.ent, self |-> m.self, all |-> m.all])
                 /\ UNCHANGED <<has, where, defined>>
Day == Ready /\ hist[Len(hist)].op # "day" /\ H([op |-> "day"]) /\ UNCHANGED <<has, where, defined>>
GNext == \/ \E r \in Room : RoomDef(r)
         \/ \E p \in Peer, x \in Row, r \in Room : Put(p, x, r) \/ Move(p, x, r)
         \/ \E p \in Peer, x \in Row : Del(p, x)
         \/ \E p \in Peer, x, y \in Row, un \in BOOLEAN : Ref(p, x, y, un)
         \/ \E p, q \in Peer : Ship(p, q)
         \/ \E p \in Peer, r \in Room : RoomUpd(p, r)
         \/ Day
GSpec == GInit /\ [][GNext]_gvars
Emit == Len(hist) # MaxLen \/ PrintT(<<"SCN", ToJson(hist)>>)
=============================================================================
