----------------------------- MODULE Gen_Focus -----------------------------
(* Exhaustive generator for C01 / C12: the product                          *)
(*   right configuration of the room x author of the row x caller x         *)
(*   operation shape (update, move, delete, add / remove a reference,       *)
(*   remove an absent reference) x a change of one of the two room          *)
(*   definitions between the last write of the row and the operation        *)
(*   (right revoked / granted, caller disabled, in the room the row is in   *)
(*   or in the room it would enter)                                         *)
(* one scenario per initial state.                                          *)
EXTENDS Naturals, Sequences, TLC, Json
VARIABLES hist
R(e, s, a) == [ent |-> e, self |-> s, all |-> a]
RightSets == { <<>>, <<R("A", TRUE, FALSE)>>, <<R("A", TRUE, TRUE)>>, <<R("*", TRUE, FALSE)>>, <<R("*", TRUE, TRUE)>>,
               <<R("*", TRUE, TRUE), R("A", FALSE, FALSE)>>, <<R("*", TRUE, FALSE), R("A", TRUE, TRUE)>> }
Dest == { <<>>, <<R("A", TRUE, FALSE)>>, <<R("A", TRUE, TRUE)>> }
Shapes == {"update", "move", "del", "ref", "unref", "unref_absent", "create"}
Room(r, rights, us) == [op |-> "roomdef", p |-> "p1", room |-> r, admins |-> <<"u1">>,
                        groups |-> << [g |-> "g1", rights |-> rights, users |-> us, uadmins |-> <<>>],
                                      [g |-> "g2", rights |-> <<R("*", TRUE, TRUE)>>, users |-> <<"u1">>, uadmins |-> <<>>] >>]
PeerOf(u) == IF u = "u1" THEN "p1" ELSE IF u = "u2" THEN "p2" ELSE "p3"
Op(shape, c) ==
    LET p == PeerOf(c) IN
    CASE shape = "update" -> <<[op |-> "put", p |-> p, row |-> "x1", ent |-> "A", room |-> "R1"]>>
      [] shape = "create" -> <<[op |-> "put", p |-> p, row |-> "x3", ent |-> "A", room |-> "R1"]>>
      [] shape = "move" -> <<[op |-> "move", p |-> p, row |-> "x1", ent |-> "A", room |-> "R2"]>>
      [] shape = "del" -> <<[op |-> "del", p |-> p, row |-> "x1", ent |-> "A"]>>
      [] shape = "ref" -> <<[op |-> "ref", p |-> p, row |-> "x1", to |-> "x2", ent |-> "A", tent |-> "A"]>>
      [] shape = "unref_absent" -> <<[op |-> "unref", p |-> p, row |-> "x1", to |-> "x2", ent |-> "A", tent |-> "A"]>>
      [] shape = "unref" -> <<[op |-> "unref", p |-> p, row |-> "x1", to |-> "x2", ent |-> "A", tent |-> "A"]>>
\* what the admin changes after the rows were written and before the operation: the operation is decided by the definition of that moment
Changes == {"none", "R1 revoke", "R1 grant", "R1 disable", "R2 revoke", "R2 grant", "R2 disable"}
Upd(room, what, user, enabled, self, all) == [op |-> "roomupd", p |-> "p1", room |-> room, g |-> "g1", what |-> what, user |-> user, enabled |-> enabled,
                                              ent |-> "A", self |-> self, all |-> all]
ChangeOps(ch, caller) ==
    IF ch = "none" THEN <<>>
    ELSE LET room == SubSeq(ch, 1, 2)
             kind == SubSeq(ch, 4, Len(ch))
         IN << (CASE kind = "revoke" -> Upd(room, "right", caller, TRUE, FALSE, FALSE)
                  [] kind = "grant" -> Upd(room, "right", caller, TRUE, TRUE, TRUE)
                  [] kind = "disable" -> Upd(room, "user", caller, FALSE, TRUE, FALSE)),
               [op |-> "ship", p |-> "p2", q |-> "p1"], [op |-> "ship", p |-> "p3", q |-> "p1"], [op |-> "day"] >>
Scenario(r1, r2, author, caller, shape, refby, ch) ==
    << Room("R1", r1, <<"u2", "u3">>), Room("R2", r2, <<"u2", "u3">>),
       [op |-> "put", p |-> PeerOf(author), row |-> "x1", ent |-> "A", room |-> "R1"],
       [op |-> "put", p |-> PeerOf(author), row |-> "x2", ent |-> "A", room |-> "R1"],
       [op |-> "ship", p |-> "p1", q |-> PeerOf(author)], [op |-> "ship", p |-> "p2", q |-> "p1"], [op |-> "ship", p |-> "p3", q |-> "p1"] >>
    \o (IF shape = "unref" THEN <<[op |-> "ref", p |-> PeerOf(refby), row |-> "x1", to |-> "x2", ent |-> "A", tent |-> "A"],
                                  [op |-> "ship", p |-> "p1", q |-> PeerOf(refby)], [op |-> "ship", p |-> "p2", q |-> "p1"], [op |-> "ship", p |-> "p3", q |-> "p1"]>> ELSE <<>>)
    \o <<[op |-> "day"]>> \o ChangeOps(ch, caller) \o Op(shape, caller)
Init == \E r1 \in RightSets, r2 \in Dest, author \in {"u1", "u2"}, caller \in {"u2", "u3"}, shape \in Shapes, refby \in {"u1", "u2"}, ch \in Changes :
          /\ (shape # "unref" => refby = "u1")
          /\ (SubSeq(ch, 1, 2) = "R2" => shape = "move")
          /\ hist = Scenario(r1, r2, author, caller, shape, IF shape = "unref" THEN refby ELSE "u1", ch)
Next == UNCHANGED hist
Spec == Init /\ [][Next]_hist
Emit == PrintT(<<"SCN", ToJson(hist)>>)
=============================================================================
