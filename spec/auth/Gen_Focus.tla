----------------------------- MODULE Gen_Focus -----------------------------
(* Exhaustive generator for C01 / C12: the product                          *)
(*   right configuration of the room x author of the row x caller x         *)
(*   operation shape (update, move, delete, add / remove a reference,       *)
(*   remove an absent reference)                                            *)
(* one scenario per initial state.                                          *)
EXTENDS Naturals, Sequences, TLC, Json
VARIABLES hist
R(e, s, a) == [ent |-> e, self |-> s, all |-> a]
RightSets == { <<>>, <<R("A", TRUE, FALSE)>>, <<R("A", TRUE, TRUE)>>, <<R("*", TRUE, FALSE)>>, <<R("*", TRUE, TRUE)>>,
               <<R("*", TRUE, TRUE), R("A", FALSE, FALSE)>>, <<R("*", TRUE, FALSE), R("A", TRUE, TRUE)>> }
Dest == { <<>>, <<R("A", TRUE, FALSE)>>, <<R("A", TRUE, TRUE)>> }
Shapes == {"update", "move", "del", "ref", "unref", "unref_absent", "create"}
Room(r, rights, us) == [op |-> "roomdef", p |-> "p1", room |-> r, admins |-> <<"u1">>,
                        groups |-> << [g |-> "g1", rights |-> rights, users |-> us, uadmins |-> <<>>],
                                      [g |-> "g2", rights |-> <<R("*", TRUE, TRUE)>>, users |-> <<"u1">>, uadmins |-> <<>>] >>]
PeerOf(u) == IF u = "u1" THEN "p1" ELSE IF u = "u2" THEN "p2" ELSE "p3"
Op(shape, c) ==
    LET p == PeerOf(c) IN
    CASE shape = "update" -> <<[op |-> "put", p |-> p, row |-> "x1", ent |-> "A", room |-> "R1"]>>
      [] shape = "create" -> <<[op |-> "put", p |-> p, row |-> "x3", ent |-> "A", room |-> "R1"]>>
      [] shape = "move" -> <<[op |-> "move", p |-> p, row |-> "x1", ent |-> "A", room |-> "R2"]>>
      [] shape = "del" -> <<[op |-> "del", p |-> p, row |-> "x1", ent |-> "A"]>>
      [] shape = "ref" -> <<[op |-> "ref", p |-> p, row |-> "x1", to |-> "x2", ent |-> "A", tent |-> "A"]>>
      [] shape = "unref_absent" -> <<[op |-> "unref", p |-> p, row |-> "x1", to |-> "x2", ent |-> "A", tent |-> "A"]>>
      [] shape = "unref" -> <<[op |-> "unref", p |-> p, row |-> "x1", to |-> "x2", ent |-> "A", tent |-> "A"]>>
Scenario(r1, r2, author, caller, shape, refby) ==
    << Room("R1", r1, <<"u2", "u3">>), Room("R2", r2, <<"u2", "u3">>),
       [op |-> "put", p |-> PeerOf(author), row |-> "x1", ent |-> "A", room |-> "R1"],
       [op |-> "put", p |-> PeerOf(author), row |-> "x2", ent |-> "A", room |-> "R1"],
       [op |-> "ship", p |-> "p1", q |-> PeerOf(author)], [op |-> "ship", p |-> "p2", q |-> "p1"], [op |-> "ship", p |-> "p3", q |-> "p1"] >>
    \o (IF shape = "unref" THEN <<[op |-> "ref", p |-> PeerOf(refby), row |-> "x1", to |-> "x2", ent |-> "A", tent |-> "A"],
                                  [op |-> "ship", p |-> "p1", q |-> PeerOf(refby)], [op |-> "ship", p |-> "p2", q |-> "p1"], [op |-> "ship", p |-> "p3", q |-> "p1"]>> ELSE <<>>)
    \o <<[op |-> "day"]>> \o Op(shape, caller)
Init == \E r1 \in RightSets, r2 \in Dest, author \in {"u1", "u2"}, caller \in {"u2", "u3"}, shape \in Shapes, refby \in {"u1", "u2"} :
          /\ (shape # "unref" => refby = "u1")
          /\ hist = Scenario(r1, r2, author, caller, shape, IF shape = "unref" THEN refby ELSE "u1")
Next == UNCHANGED hist
Spec == Init /\ [][Next]_hist
Emit == PrintT(<<"SCN", ToJson(hist)>>)
=============================================================================
