-------------------------- MODULE Trace_LocalWrite --------------------------
(* C01 on traces of real instances of three users.  For every local         *)
(* operation the monitor evaluates the decision function of Auth.tla on the *)
(* room definitions the acting instance holds (logged by the harness from   *)
(* a query of the stored definition rows) and requires:                     *)
(*   - a change of the instance's rows only if the caller was entitled, in  *)
(*     the room the row leaves and in the room it enters;                   *)
(*   - no change when the call reported an error;                           *)
(*   - room definitions change only in room mutations, by an admin (users   *)
(*     also by a user admin of the group).                                  *)
EXTENDS Auth, Json, IOUtils, TLC
CONSTANTS KNOWN
Rec == ndJsonDeserialize(IOEnv.TRACE)
VARIABLES l, st, defs, peers, users, bad, devs, sid
tvars == <<l, st, defs, peers, users, bad, devs, sid>>
Ev == Rec[l]
Empty == [nodes |-> <<>>, edges |-> <<>>, ntombs |-> <<>>, etombs |-> <<>>, log |-> <<>>]

NKey(n) == <<n.row, n.ent, n.room, n.m, n.s, n.au, n.text>>
NodeKeys(s, p) == {NKey(n) : n \in ToSet(s[p].nodes)}
EdgeKeys(s, p) == {<<e.src, e.dst, e.c, e.s, e.au>> : e \in ToSet(s[p].edges)}
TombKeys(s, p) == {<<t.row, t.m, t.d, t.s>> : t \in ToSet(s[p].ntombs)} \cup {<<t.src, t.dst, t.c, t.d, t.s>> : t \in ToSet(s[p].etombs)}
Same(s0, s1, p) == NodeKeys(s0, p) = NodeKeys(s1, p) /\ EdgeKeys(s0, p) = EdgeKeys(s1, p) /\ TombKeys(s0, p) = TombKeys(s1, p)
HasRow(s, p, x) == \E n \in ToSet(s[p].nodes) : n.row = x
RowAt(s, p, x) == CHOOSE n \in ToSet(s[p].nodes) : n.row = x
Knows(D, r) == r \in DOMAIN D
CanIn(D, r, u, e, d, right) == Knows(D, r) /\ Can(D[r], u, e, d, right)

\* the right an existing row requires from caller u
Need(n, u) == IF n.au = u THEN "self" ELSE "all"
UpdateRule(D, s0, p, u, x, e, d) == HasRow(s0, p, x) /\ CanIn(D, RowAt(s0, p, x).room, u, e, d, Need(RowAt(s0, p, x), u))
EdgeRule(D, s0, p, u, x, y, e, d) ==
    \A g \in {h \in ToSet(s0[p].edges) : h.src = x /\ h.dst = y} :
        HasRow(s0, p, x) /\ CanIn(D, RowAt(s0, p, x).room, u, e, d, IF g.au = u THEN "self" ELSE "all")

Entitled(D, s0, p, u, d) ==
    CASE Ev.ev = "put" -> IF HasRow(s0, p, Ev.row) THEN UpdateRule(D, s0, p, u, Ev.row, Ev.ent, d)
                          ELSE CanIn(D, Ev.room, u, Ev.ent, d, "self")
      [] Ev.ev = "move" -> UpdateRule(D, s0, p, u, Ev.row, Ev.ent, d)
                           /\ CanIn(D, Ev.room, u, Ev.ent, d, Need(RowAt(s0, p, Ev.row), u))
      [] Ev.ev \in {"del", "ref"} -> UpdateRule(D, s0, p, u, Ev.row, Ev.ent, d)
      [] Ev.ev = "unref" -> UpdateRule(D, s0, p, u, Ev.row, Ev.ent, d) /\ EdgeRule(D, s0, p, u, Ev.row, Ev.to, Ev.ent, d)
      [] OTHER -> TRUE

DataOp == Ev.ev \in {"put", "move", "del", "ref", "unref"}
\* room mutation rule: admins change anything; a user admin of the group may add user entries to it
RoomRule(D, u, d) ==
    /\ Knows(D, Ev.room)
    /\ \/ IsAdmin(D[Ev.room], u, d)
       \/ Ev.what = "user" /\ \E G \in ToSet(D[Ev.room].groups) : G.g = Ev.g /\ IsUserAdmin(G, u, d)

\* a reference deletion re-signs the source row with the caller's key without checking any right on it
\* (deletion.rs build: updated_nodes; authorisation_service.rs validate_deletion signs them unconditionally)
IsRefDeleteResigns(D, s0, p, u, d) == Ev.ev = "unref" /\ EdgeRule(D, s0, p, u, Ev.row, Ev.to, Ev.ent, d)

Step ==
    /\ l <= Len(Rec) /\ Ev.ev \notin {"begin", "end"} /\ l' = l + 1
    /\ LET s1 == [p \in peers |-> Ev.st[p]]
           d1 == [p \in peers |-> Ev.defs[p]]
           objs ==
             IF DataOp THEN
                LET p == Ev.p  u == users[p]  D == defs[p]  d == Ev.now
                    changed == ~Same(st, s1, p)
                IN (IF changed /\ ~Entitled(D, st, p, u, d)
                    THEN {<<"unentitled", Ev.ev, p, Ev.row, IF IsRefDeleteResigns(D, st, p, u, d) THEN "RefDeleteResignsWithoutRight" ELSE "none">>} ELSE {})
                   \cup (IF changed /\ Ev.res = "err" THEN {<<"refused-but-changed", Ev.ev, p, Ev.row, "none">>} ELSE {})
                   \cup (IF d1[p] # D THEN {<<"definition-changed-by-data-op", Ev.ev, p, Ev.row, "none">>} ELSE {})
                   \cup {<<"other-peer-changed", Ev.ev, q, Ev.row, "none">> : q \in {r \in peers \ {p} : ~Same(st, s1, r) \/ d1[r] # defs[r]}}
             ELSE IF Ev.ev = "roomupd" THEN
                LET p == Ev.p  u == users[p]  D == defs[p]  d == Ev.now
                IN (IF d1[p] # D /\ ~RoomRule(D, u, d) THEN {<<"room-changed-by-non-admin", Ev.ev, p, Ev.room, "none">>} ELSE {})
                   \cup (IF d1[p] # D /\ Ev.res = "err" THEN {<<"refused-but-changed", Ev.ev, p, Ev.room, "none">>} ELSE {})
                   \cup (IF ~Same(st, s1, p) THEN {<<"data-changed-by-room-op", Ev.ev, p, Ev.room, "none">>} ELSE {})
             ELSE {}
       IN /\ st' = s1 /\ defs' = d1
          /\ bad' = bad \cup {<<"UNEXPLAINED", o>> : o \in {x \in objs : x[5] \notin KNOWN}}
          /\ devs' = devs \cup {o[5] : o \in {x \in objs : x[5] \in KNOWN}}
    /\ UNCHANGED <<peers, users, sid>>
Begin == /\ l <= Len(Rec) /\ Ev.ev = "begin" /\ l' = l + 1 /\ peers' = ToSet(Ev.peers) /\ sid' = Ev.sid /\ users' = Ev.users
         /\ st' = [p \in ToSet(Ev.peers) |-> Empty] /\ defs' = [p \in ToSet(Ev.peers) |-> <<>>] /\ bad' = {} /\ devs' = {}
End == /\ l <= Len(Rec) /\ Ev.ev = "end" /\ l' = l + 1 /\ PrintT(<<"DEVS", sid, devs>>)
       /\ UNCHANGED <<st, defs, peers, users, bad, devs, sid>>
TInit == l = 1 /\ st = <<>> /\ defs = <<>> /\ peers = {} /\ users = <<>> /\ bad = {} /\ devs = {} /\ sid = 0
TNext == Begin \/ Step \/ End
TSpec == TInit /\ [][TNext]_tvars
Monitors == \A o \in bad : o[1] # "UNEXPLAINED"
Reached == PrintT(<<"REACHED", TLCGet("stats").diameter - 1, Len(Rec)>>)
=============================================================================
