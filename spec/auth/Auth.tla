-------------------------------- MODULE Auth --------------------------------
(* The decision function of a room (room.rs:60-252), transcribed as pure    *)
(* operators over the value of a room definition:                           *)
(*   [admins : Seq([u, d, en]), groups : Seq([g, users, uadmins, rights])]  *)
(* with rights : Seq([ent, d, self, all]).  An entry applies from its date  *)
(* on; the latest entry not after the asked date decides.  A right entry    *)
(* for the entity shadows the wildcard entry "*".                           *)
EXTENDS Naturals, FiniteSets, Sequences
ToSet(s) == {s[i] : i \in DOMAIN s}

\* is user u enabled at date d according to the list L of [u, d, en] entries
EnabledAt(L, u, d) ==
    LET S == {e \in ToSet(L) : e.u = u /\ e.d <= d}
    IN S # {} /\ \E e \in S : (\A f \in S : f.d <= e.d) /\ e.en
IsAdmin(R, u, d) == EnabledAt(R.admins, u, d)
IsUserAdmin(G, u, d) == EnabledAt(G.uadmins, u, d)
IsMember(G, u, d) == EnabledAt(G.users, u, d) \/ EnabledAt(G.uadmins, u, d)
IsRoomMember(R, u, d) == IsAdmin(R, u, d) \/ \E G \in ToSet(R.groups) : IsMember(G, u, d)

LatestRight(S) == CHOOSE e \in S : \A f \in S : f.d <= e.d
HasRight(G, ent, d, r) ==
    LET S1 == {x \in ToSet(G.rights) : x.ent = ent /\ x.d <= d}
        S2 == {x \in ToSet(G.rights) : x.ent = "*" /\ x.d <= d}
    IN IF S1 # {} THEN LatestRight(S1)[r]
       ELSE IF S2 # {} THEN LatestRight(S2)[r] ELSE FALSE
\* r \in {"self", "all"}
Can(R, u, ent, d, r) == \E G \in ToSet(R.groups) : (IsAdmin(R, u, d) \/ IsMember(G, u, d)) /\ HasRight(G, ent, d, r)
=============================================================================
