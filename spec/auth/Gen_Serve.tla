------------------------------ MODULE Gen_Serve ------------------------------
(* Scenario generator for C08: request sequences of a remote peer (not yet  *)
(* authenticated, then authenticated as u2) on one connection of the server *)
(* p1, over every request kind and rooms it is / was / never was a member   *)
(* of, interleaved with membership changes on the server.                   *)
(* Rooms (prepared by the driver): R1 u2 is a user; R2 u2 is nothing;       *)
(* R3 u2 is admin only; R4 u2 is user admin only.  Rows x1..x4 in R1..R4.   *)
EXTENDS Naturals, Sequences, TLC, Json
CONSTANTS MaxLen
VARIABLES hist, auth
gvars == <<hist, auth>>
Rooms == {"R1", "R2", "R3", "R4"}
RoomQ == {"RoomDefinition", "RoomNode", "RoomLog", "RoomLogAt", "EdgeDeletionLog", "NodeDeletionLog", "RoomDailyNodes", "PeersForRoom"}
RowSets == { <<"x1">>, <<"x2">>, <<"x1", "x2", "x3", "x4">> }
GInit == hist = <<>> /\ auth = ""
H(m) == hist' = Append(hist, m)
Req == \/ \E q \in RoomQ, r \in Rooms : H([op |-> "serve", as |-> auth, reqs |-> <<[q |-> q, room |-> r]>>])
       \/ \E q \in {"Nodes", "Edges"}, r \in Rooms, rs \in RowSets : H([op |-> "serve", as |-> auth, reqs |-> <<[q |-> q, room |-> r, rows |-> rs]>>])
       \/ \E q \in {"RoomList", "HardwareFingerprint"} : H([op |-> "serve", as |-> auth, reqs |-> <<[q |-> q]>>])
Authenticate == auth = "" /\ auth' = "u2" /\ UNCHANGED hist
Change == \E c \in { [room |-> "R1", g |-> "g1", what |-> "user", user |-> "u2", enabled |-> FALSE],
                     [room |-> "R1", g |-> "g1", what |-> "user", user |-> "u2", enabled |-> TRUE],
                     [room |-> "R2", g |-> "g1", what |-> "user", user |-> "u2", enabled |-> TRUE],
                     [room |-> "R3", g |-> "g1", what |-> "admin", user |-> "u2", enabled |-> FALSE],
                     [room |-> "R4", g |-> "g1", what |-> "uadmin", user |-> "u2", enabled |-> FALSE] } :
            H([op |-> "roomupd", p |-> "p1", room |-> c.room, g |-> c.g, what |-> c.what, user |-> c.user, enabled |-> c.enabled, ent |-> "A", self |-> TRUE, all |-> FALSE])
GNext == (Req /\ UNCHANGED auth) \/ Authenticate \/ (Change /\ UNCHANGED auth)
GSpec == GInit /\ [][GNext]_gvars
Emit == Len(hist) # MaxLen \/ PrintT(<<"SCN", ToJson(hist)>>)
=============================================================================
