---------------------------- MODULE Gen_Handshake ----------------------------
(* Scenario generator for C19: (a) every behaviour of the remote side of    *)
(* the identity proof, per token kind; (b) sequences of invitation          *)
(* operations on a real peer manager.                                       *)
EXTENDS Naturals, Sequences, TLC, Json
CONSTANTS MaxLen, Part
VARIABLES hist
Remote == [signer : {"u1", "u2", "u3"}, challenge : {"this", "other"}, node : {"signer", "other:u2", "other:u3", "room", "entity", "tampered"}, answer : {"ok", "fail", "garbage"}]
Handshakes == {[kind |-> "handshake", token |-> t, expected |-> e, remote |-> r] : t \in {"allowed", "invite", "owned"}, e \in {"u1", "u2"}, r \in Remote}
Ops == {[op |-> "create"]} \cup {[op |-> "accept", i |-> 0, by |-> b] : b \in {"u2", "wrongapp"}}
       \cup {[op |-> "lookup", i |-> 0, key |-> k] : k \in {"u2", "u3"}} \cup {[op |-> "consume", i |-> 0, by |-> b] : b \in {"u2", "u3"}}
GInit == IF Part = "handshake" THEN \E h \in {x \in Handshakes : ~(x.token = "invite" /\ x.expected = "u1")} : hist = h
         ELSE hist = <<[op |-> "create"]>>
GNext == Part = "invite" /\ Len(hist) < MaxLen /\ \E o \in Ops \ {[op |-> "create"]} : hist' = Append(hist, o)
GSpec == GInit /\ [][GNext]_hist
Emit == (Part = "invite" /\ Len(hist) # MaxLen) \/ PrintT(<<"SCN", ToJson(hist)>>)
=============================================================================
