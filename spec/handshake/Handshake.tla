------------------------------ MODULE Handshake ------------------------------
(* Admission of a connection and single use of invitations (C19),           *)
(* peer_inbound_service.rs:146-228 and peer_manager.rs:549-717.             *)
(* A connection arrives with a meeting token; the token tells what is       *)
(* expected of the remote side (a known peer's key, the key that signed an  *)
(* invitation we accepted, or anybody holding an invitation we created).    *)
(* The remote side is an adversary: it chooses who signs, what is signed,   *)
(* which peer row is sent and how the answer is framed.                     *)
EXTENDS Naturals, FiniteSets, Sequences, TLC
CONSTANTS User, Invitation, DEV
Has(d) == d \in DEV
\* ---- the proof of identity ----
\* behaviour of the remote side: [signer, challenge : "this" | "other", node : "signer" | <<"other", u>> | "room" | "entity" | "tampered", answer]
ProofOK(token, expected, b) ==
    /\ b.answer = "ok" /\ b.challenge = "this" /\ b.node = "signer"
    /\ (token \in {"allowed", "invite"} => b.signer = expected)
\* ---- invitations ----
VARIABLES inv,       \* Invitation -> "none" | "open" | "consumed"
          accepted,  \* set of <<invitation, user>> : the inviter added the user to its allowed peers
          found      \* last lookup result
vars == <<inv, accepted, found>>
Init == inv = [i \in Invitation |-> "none"] /\ accepted = {} /\ found = "none"
Create(i) == inv[i] = "none" /\ inv' = [inv EXCEPT ![i] = "open"] /\ UNCHANGED <<accepted, found>>
\* a connection opened with the invitation's token, after the remote user proved its key
Consume(i, u) == /\ inv[i] = "open"
                 /\ accepted' = accepted \cup {<<i, u>>}
                 /\ inv' = IF Has("InviteRemovedUnderWrongToken") THEN inv ELSE [inv EXCEPT ![i] = "consumed"]
                 /\ UNCHANGED found
Lookup(i) == found' = (IF inv[i] = "open" THEN "owned_invite" ELSE "none") /\ UNCHANGED <<inv, accepted>>
Next == \E i \in Invitation : Create(i) \/ Lookup(i) \/ \E u \in User : Consume(i, u)
Spec == Init /\ [][Next]_vars
InviteConsumedAtMostOnce == \A i \in Invitation : Cardinality({u \in User : <<i, u>> \in accepted}) <= 1
=============================================================================
