--------------------------- MODULE Trace_Handshake ---------------------------
(* C19 on traces of the real connection initialisation, of real peer        *)
(* managers and of the meeting token derivation.                            *)
EXTENDS Naturals, FiniteSets, Sequences, Json, IOUtils, TLC
CONSTANTS KNOWN
Rec == ndJsonDeserialize(IOEnv.TRACE)
VARIABLES l, bad, devs, sid, consumed, peers0
tvars == <<l, bad, devs, sid, consumed, peers0>>
ToSet(s) == {s[i] : i \in DOMAIN s}
Ev == Rec[l]
ProofOK == /\ Ev.remote.answer = "ok" /\ Ev.remote.challenge = "this"
           /\ Ev.remote.node \in {"signer", "other:" \o Ev.remote.signer}
           /\ (Ev.token \in {"allowed", "invite"} => Ev.remote.signer = Ev.expected)
Trusted == Ev.out.bound # "" \/ Ev.out.events # <<>> \/ Ev.out.msgs # <<>>
HandshakeProblems ==
    (IF Trusted /\ ~ProofOK THEN {<<"trusted-without-proof", "none">>} ELSE {})
    \cup (IF ~ProofOK /\ Ev.out.result = "ok" THEN {<<"accepted-without-proof", "none">>} ELSE {})
    \cup (IF ProofOK /\ (Ev.out.result # "ok" \/ Ev.out.bound # Ev.remote.signer) THEN {<<"honest-peer-refused", "none">>} ELSE {})
    \cup (IF ProofOK /\ \E m \in ToSet(Ev.out.msgs) : m.m # "other" /\ m.key # Ev.remote.signer THEN {<<"reported-as-another-key", "none">>} ELSE {})
InviteProblems ==
    (IF Ev.ev = "lookup" /\ 0 \in consumed /\ Ev.found # "none" THEN {<<"consumed-invitation-still-admits", "InviteRemovedUnderWrongToken">>} ELSE {})
    \cup (IF Ev.ev = "consume" /\ 0 \in consumed /\ Ev.res = "consumed" THEN {<<"invitation-consumed-twice", "InviteRemovedUnderWrongToken">>} ELSE {})
    \cup (IF Ev.ev = "accept" /\ Ev.by = "wrongapp" /\ Ev.res = "ok" THEN {<<"invitation-accepted-by-another-application", "none">>} ELSE {})
    \cup (IF Ev.ev # "consume" /\ peers0 # 0 /\ Ev.allowed_peers # peers0 THEN {<<"peer-allowed-without-consuming-an-invitation", "none">>} ELSE {})
    \cup (IF Ev.ev = "consume" /\ peers0 # 0 /\ Ev.res # "consumed" /\ Ev.allowed_peers # peers0 THEN {<<"peer-allowed-by-a-refused-consumption", "none">>} ELSE {})
TokenProblems ==
    LET P == ToSet(Ev.pairs)
        T(a, b) == (CHOOSE p \in P : p.a = a /\ p.b = b).t
        U == {p.a : p \in P}
    IN (IF \E a, b \in U : T(a, b) # T(b, a) THEN {<<"token-not-symmetric", "none">>} ELSE {})
       \cup (IF \E a, b, c, d \in U : {a, b} # {c, d} /\ T(a, b) = T(c, d) THEN {<<"token-collision", "none">>} ELSE {})
Step == /\ l <= Len(Rec) /\ Ev.ev \notin {"begin", "end"} /\ l' = l + 1
        /\ LET objs == IF Ev.ev = "handshake" THEN HandshakeProblems ELSE IF Ev.ev = "tokens" THEN TokenProblems ELSE InviteProblems
           IN /\ bad' = bad \cup {<<"UNEXPLAINED", o[1]>> : o \in {x \in objs : x[2] \notin KNOWN}}
              /\ devs' = devs \cup {o[2] : o \in {x \in objs : x[2] \in KNOWN}}
        /\ consumed' = IF Ev.ev = "consume" /\ Ev.res = "consumed" THEN consumed \cup {0} ELSE consumed
        /\ peers0' = IF "allowed_peers" \in DOMAIN Ev THEN Ev.allowed_peers ELSE peers0
        /\ UNCHANGED sid
Begin == /\ l <= Len(Rec) /\ Ev.ev = "begin" /\ l' = l + 1 /\ sid' = Ev.sid /\ bad' = {} /\ devs' = {} /\ consumed' = {} /\ peers0' = 0
End == /\ l <= Len(Rec) /\ Ev.ev = "end" /\ l' = l + 1 /\ PrintT(<<"DEVS", sid, devs>>) /\ UNCHANGED <<bad, devs, sid, consumed, peers0>>
TInit == l = 1 /\ bad = {} /\ devs = {} /\ sid = 0 /\ consumed = {} /\ peers0 = 0
TNext == Begin \/ Step \/ End
TSpec == TInit /\ [][TNext]_tvars
Monitors == \A o \in bad : o[1] # "UNEXPLAINED"
Reached == PrintT(<<"REACHED", TLCGet("stats").diameter - 1, Len(Rec)>>)
=============================================================================
