------------------------------ MODULE Gen_Sync ------------------------------
(* Scenario generator for C03/C11: behaviours of Sync.tla with a history of *)
(* the environment's choices.  Used exhaustively (VIEW hides the history,   *)
(* one scenario per reachable state) and in simulation mode (one scenario   *)
(* per behaviour of the requested depth).                                   *)
EXTENDS Sync, Json
CONSTANTS a, b, c, x, y, z, A, B, MaxLen, Mode
VARIABLES hist
gvars == <<vars, hist>>
EntOf2 == (x :> A) @@ (y :> B)
EntOf3 == (x :> A) @@ (y :> A) @@ (z :> B)
EntRankAB == (A :> 1) @@ (B :> 2)
Name(v) == IF v = a THEN "p1" ELSE IF v = b THEN "p2" ELSE IF v = c THEN "p3"
           ELSE IF v = x THEN "x1" ELSE IF v = y THEN "x2" ELSE IF v = z THEN "x3"
           ELSE IF v = A THEN "A" ELSE "B"
H(m) == hist' = Append(hist, m)
GInit == Init /\ hist = <<>>
GNext ==
    \/ \E p \in Peer, r \in Row :
         \/ Create(p, r) /\ H([op |-> "put", p |-> Name(p), row |-> Name(r), ent |-> Name(EntOf[r]), sim |-> FALSE])
         \* an update may carry the same date (millisecond) as the update of the same row just made on another peer:
         \* the two versions are then ordered by their signatures only
         \/ Update(p, r) /\ \E sim \in (IF Mode # "none" /\ hist # <<>> /\ hist[Len(hist)].op = "put" /\ hist[Len(hist)].row = Name(r) /\ hist[Len(hist)].p # Name(p)
                                         THEN BOOLEAN ELSE {FALSE}) :
                               H([op |-> "put", p |-> Name(p), row |-> Name(r), ent |-> Name(EntOf[r]), sim |-> sim])
         \/ Delete(p, r) /\ H([op |-> "del", p |-> Name(p), row |-> Name(r), ent |-> Name(EntOf[r])])
    \/ \E p \in Peer, r, r2 \in Row :
         \/ AddRef(p, r, r2) /\ H([op |-> "ref", p |-> Name(p), row |-> Name(r), to |-> Name(r2), ent |-> Name(EntOf[r]), tent |-> Name(EntOf[r2])])
         \/ RemoveRef(p, r, r2) /\ H([op |-> "unref", p |-> Name(p), row |-> Name(r), to |-> Name(r2), ent |-> Name(EntOf[r]), tent |-> Name(EntOf[r2])])
    \/ Tick /\ H([op |-> "day"])
    \/ \E p, q \in Peer : Pull(p, q) /\ H([op |-> "pull", p |-> Name(p), q |-> Name(q)])
GSpec == GInit /\ [][GNext]_gvars
Bound == Len(hist) <= MaxLen
NSim == Cardinality({i \in DOMAIN hist : hist[i].op = "put" /\ hist[i].sim})
GView == <<vars, NSim>>
Emit == IF Mode = "states" THEN (hist = <<>> \/ PrintT(<<"SCN", ToJson([h |-> hist, k |-> ToString(<<vars, NSim>>)])>>))
        ELSE (Len(hist) # MaxLen \/ PrintT(<<"SCN", ToJson(hist)>>))
=============================================================================
