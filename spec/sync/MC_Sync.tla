---- MODULE MC_Sync ----
EXTENDS Sync
CONSTANTS a, b, c, x, y, z, A, B
EntOf2 == (x :> A) @@ (y :> B)
EntRankAB == (A :> 1) @@ (B :> 2)
EntOf3 == (x :> A) @@ (y :> A) @@ (z :> B)
====
