----------------------------- MODULE Trace_Sync -----------------------------
(* Validates traces of real peers (dv world) for C03 and C11.               *)
(*                                                                          *)
(* The harness logs, after every operation, the projection of every peer's  *)
(* storage onto the variables of Sync.tla.  The trace specification takes   *)
(* the observed projection as the next state and                            *)
(*   - checks frame conditions (who may change on which operation),         *)
(*   - evaluates the property monitors: C11 in every state, C03 at          *)
(*     quiescence,                                                          *)
(*   - attributes each object that newly violates a monitor to a deviation  *)
(*     of Sync.tla if the step matches that deviation's guard exactly and   *)
(*     the deviation is listed in KNOWN; an object that cannot be           *)
(*     attributed makes the invariant Monitors fail.                        *)
EXTENDS Naturals, FiniteSets, Sequences, Json, IOUtils, TLC
CONSTANTS KNOWN,          \* names of listed deviations
          Property        \* "C03" | "C11" | "both"
Rec == ndJsonDeserialize(IOEnv.TRACE)
VARIABLES l, st, peers, bad, devs, sid,
          maxv   \* Row -> newest version <<m, s>> ever stored anywhere (SameWinner)
tvars == <<l, st, peers, bad, devs, sid, maxv>>

ToSet(s) == {s[i] : i \in DOMAIN s}
Ev == Rec[l]

Nodes(s, p) == ToSet(s[p].nodes)
Tombs(s, p) == ToSet(s[p].ntombs)
ETombs(s, p) == ToSet(s[p].etombs)
Edges(s, p) == ToSet(s[p].edges)
RowsOf(s, p) == {n.row : n \in Nodes(s, p)}
\* identity of a stored row version / record, without peer-local fields (slot)
NKey(n) == <<n.row, n.ent, n.room, n.m, n.s, n.au, n.text>>
NodeKeys(s, p) == {NKey(n) : n \in Nodes(s, p)}
TKey(t) == <<t.row, t.ent, t.room, t.m, t.d, t.s>>
TombKeys(s, p) == {TKey(t) : t \in Tombs(s, p)}
ETKey(t) == <<t.src, t.dst, t.c, t.d, t.s>>
ETombKeys(s, p) == {ETKey(t) : t \in ETombs(s, p)}
EKey(e) == <<e.src, e.dst, e.c, e.s>>
VisEdgeKeys(s, p) == {EKey(e) : e \in {g \in Edges(s, p) : g.src \in RowsOf(s, p) /\ g.dst \in RowsOf(s, p)}}
NodeAt(s, p, x) == CHOOSE n \in Nodes(s, p) : n.row = x
Newer(m1, s1, m2, s2) == m1 > m2 \/ (m1 = m2 /\ s1 > s2)

Empty == [nodes |-> <<>>, edges |-> <<>>, ntombs |-> <<>>, etombs |-> <<>>, log |-> <<>>]

\* ------------------------------------------------------------ monitors
\* C11: a stored deletion record covers every version of the row up to the deleted one
C11Bad(s, P) == UNION {{<<"row", p, n.row>> : n \in {m \in Nodes(s, p) : \E t \in Tombs(s, p) : t.row = m.row /\ m.m <= t.m}} : p \in P}

\* C03 at quiescence
Diverged(s, P) ==
    UNION {UNION {
        {<<"node", p, q, k[1]>> : k \in NodeKeys(s, p) \ NodeKeys(s, q)}
        \cup {<<"tomb", p, q, k[1]>> : k \in TombKeys(s, p) \ TombKeys(s, q)}
        \cup {<<"etomb", p, q, k[1], k[2]>> : k \in ETombKeys(s, p) \ ETombKeys(s, q)}
        \cup {<<"edge", p, q, k[1], k[2]>> : k \in {j \in VisEdgeKeys(s, p) \ VisEdgeKeys(s, q) :
                                                       \* a reference whose source row differs is part of that row's divergence
                                                       j[1] \in RowsOf(s, q) /\ NKey(NodeAt(s, p, j[1])) = NKey(NodeAt(s, q, j[1]))}}
      : q \in P \ {p}} : p \in P}

\* ------------------------------------------------------------ attribution of newly bad objects
EntRankT(e) == IF e = "A" THEN 1 ELSE 2
LogKeys(s, p) == {<<g.ent, g.day, g.n, g.dh>> : g \in ToSet(s[p].log)}
DefRow(s, p) ==
    LET L == ToSet(s[p].log)
    IN IF L = {} THEN <<"empty">>
       ELSE LET D == CHOOSE d \in {g.day : g \in L} : \A g \in L : g.day <= d
                C == {g \in L : g.day = D}
                r == CHOOSE g \in C : \A h \in C : EntRankT(g.ent) <= EntRankT(h.ent)
            IN <<D, r.dh, r.hh>>

\* Dev IngestIgnoresTombstone: a pull stored on the puller a row version that the responder holds and
\* that a deletion record (of the puller before the pull, or received in this pull) covers
IsIngestIgnoresTombstone(o, s0, s1) ==
    /\ Ev.ev = "pull" /\ o[1] = "row" /\ o[2] = Ev.p
    /\ o[3] \in RowsOf(s1, Ev.p) /\ o[3] \in RowsOf(s0, Ev.q)
    /\ NKey(NodeAt(s1, Ev.p, o[3])) = NKey(NodeAt(s0, Ev.q, o[3]))
\* a local deletion applied on a peer whose copy had already been resurrected elsewhere is fine; what is
\* attributed here is only the copy through a pull

\* Dev EdgesOnlyWithNewerNode: at quiescence a reference created under an overwritten version of its
\* source row is missing on a peer whose copy of the source row is the same winning version
IsEdgesOnlyWithNewerNode(o, s1) ==
    /\ o[1] = "edge"
    /\ LogKeys(s1, o[2]) = LogKeys(s1, o[3])      \* identical logs: nothing tells the peers that they differ
    /\ o[4] \in RowsOf(s1, o[2]) /\ o[4] \in RowsOf(s1, o[3])
    /\ NKey(NodeAt(s1, o[2], o[4])) = NKey(NodeAt(s1, o[3], o[4]))
    /\ \/ \E e \in Edges(s1, o[2]) : e.src = o[4] /\ e.dst = o[5] /\ e.c < NodeAt(s1, o[3], o[4]).m
       \* or: the peer that lacks the reference deleted one of its two rows itself (a local deletion removes the references of the
       \* row) and the row came back in a newer version from a peer; the reference is not fetched again, its source row did not change
       \/ \E t \in ToSet(s1[o[3]].ntombs) : /\ t.row \in {o[4], o[5]} /\ t.row \in RowsOf(s1, o[3])
                                              /\ NodeAt(s1, o[3], t.row).m > t.m

\* Dev DefLogSingleEntity: the definition log carries one row of the last day (the entity whose storage
\* name sorts first).  Guard: the two peers' definition-log rows are equal although their logs differ,
\* so by construction the pull decides that there is nothing to fetch.
IsDefLogSingleEntity(o, s1) ==
    /\ o[1] \in {"node", "tomb", "etomb", "edge"}
    /\ DefRow(s1, o[2]) = DefRow(s1, o[3])
    /\ LogKeys(s1, o[2]) # LogKeys(s1, o[3])

Attribute(o, s0, s1) ==
    IF IsIngestIgnoresTombstone(o, s0, s1) THEN "IngestIgnoresTombstone"
    ELSE IF Ev.ev = "quiesce" /\ IsEdgesOnlyWithNewerNode(o, s1) THEN "EdgesOnlyWithNewerNode"
    ELSE IF Ev.ev = "quiesce" /\ IsDefLogSingleEntity(o, s1) THEN "DefLogSingleEntity"
    ELSE "none"

\* ------------------------------------------------------------ frame conditions
Unchanged(s0, s1, p) == NodeKeys(s0, p) = NodeKeys(s1, p) /\ TombKeys(s0, p) = TombKeys(s1, p)
                        /\ ETombKeys(s0, p) = ETombKeys(s1, p) /\ {EKey(e) : e \in Edges(s0, p)} = {EKey(e) : e \in Edges(s1, p)}
OnlyChanges(s0, s1, P, p) == \A q \in P \ {p} : Unchanged(s0, s1, q)
\* a pull only brings what the responder has, and never removes a deletion record
PullFrame(s0, s1, p, q) ==
    /\ NodeKeys(s1, p) \subseteq NodeKeys(s0, p) \cup NodeKeys(s0, q)
    /\ TombKeys(s1, p) \subseteq TombKeys(s0, p) \cup TombKeys(s0, q)
    /\ TombKeys(s0, p) \subseteq TombKeys(s1, p)
    /\ ETombKeys(s0, p) \subseteq ETombKeys(s1, p)
    /\ ETombKeys(s1, p) \subseteq ETombKeys(s0, p) \cup ETombKeys(s0, q)

\* ------------------------------------------------------------ steps
Observed == [p \in peers |-> Ev.st[p]]
Want11 == Property \in {"C11", "both"}
Want03 == Property \in {"C03", "both"}
AllNodes(s) == UNION {Nodes(s, p) : p \in peers}
NewMax(s1) == [x \in {n.row : n \in AllNodes(s1)} \cup DOMAIN maxv |->
                 LET here == {<<n.m, n.s>> : n \in {k \in AllNodes(s1) : k.row = x}} \cup (IF x \in DOMAIN maxv THEN {maxv[x]} ELSE {})
                 IN CHOOSE v \in here : \A w \in here : v = w \/ Newer(v[1], v[2], w[1], w[2])]
\* the same version wins everywhere (that is Converged) and it is a newest one: no version with a later date was ever stored,
\* unless the row was deleted somewhere.  Versions of the same date are ordered by their signatures only when they meet;
\* one peer may replace its own version by another of the same millisecond, so the date is what is compared here.
WrongWinner(s1, mv) == {<<"winner", n.row>> : n \in {k \in AllNodes(s1) : (~\E p \in peers : \E t \in Tombs(s1, p) : t.row = k.row)
                                                                       /\ k.m < mv[k.row][1]}}
NowBad(s1) == (IF Want11 THEN C11Bad(s1, peers) ELSE {})
              \cup (IF Want03 /\ Ev.ev = "quiesce"
                    THEN (IF Ev.quiet THEN (LET dv == Diverged(s1, peers) IN IF dv = {} THEN WrongWinner(s1, NewMax(s1)) ELSE dv)
                          ELSE {<<"noquiesce">>}) ELSE {})

Step ==
    /\ l <= Len(Rec) /\ Ev.ev \notin {"begin", "end"}
    /\ l' = l + 1
    /\ LET s1 == Observed
           nb == NowBad(s1)
           fresh == nb \ {o \in bad : o[1] = "row"}      \* C11 objects stay bad; C03 objects are re-examined
           named == {<<o, Attribute(o, st, s1)>> : o \in fresh}
       IN /\ st' = s1
          /\ bad' = {o \in bad : o \in nb /\ o[1] = "row"} \cup {x[1] : x \in {y \in named : y[2] \in KNOWN}}
                    \cup {<<"UNEXPLAINED", x[1]>> : x \in {y \in named : y[2] \notin KNOWN}}
          /\ devs' = devs \cup {x[2] : x \in {y \in named : y[2] \in KNOWN}}
    /\ CASE Ev.ev \in {"put", "ref", "unref", "del", "move", "compute"} -> OnlyChanges(st, Observed, peers, Ev.p)
         [] Ev.ev = "pull" -> OnlyChanges(st, Observed, peers, Ev.p) /\ PullFrame(st, Observed, Ev.p, Ev.q)
         [] Ev.ev \in {"tick", "room", "search", "quiesce"} -> \A p \in peers : Unchanged(st, Observed, p)
         [] OTHER -> TRUE
    /\ maxv' = NewMax(Observed)
    /\ UNCHANGED <<peers, sid>>

Begin == /\ l <= Len(Rec) /\ Ev.ev = "begin" /\ l' = l + 1
         /\ peers' = ToSet(Ev.peers) /\ sid' = Ev.sid
         /\ st' = [p \in ToSet(Ev.peers) |-> Empty]
         /\ bad' = {} /\ devs' = {} /\ maxv' = <<>>
End == /\ l <= Len(Rec) /\ Ev.ev = "end" /\ l' = l + 1
       /\ PrintT(<<"DEVS", sid, devs>>)
       /\ UNCHANGED <<st, peers, bad, devs, sid, maxv>>

TInit == l = 1 /\ st = <<>> /\ peers = {} /\ bad = {} /\ devs = {} /\ sid = 0 /\ maxv = <<>>
TNext == Begin \/ Step \/ End
TSpec == TInit /\ [][TNext]_tvars

\* the deciding invariant: every object that violates a monitor is attributed to a listed deviation
Monitors == \A o \in bad : o[1] # "UNEXPLAINED"
Reached == PrintT(<<"REACHED", TLCGet("stats").diameter - 1, Len(Rec)>>)
=============================================================================
