-------------------------------- MODULE Sync --------------------------------
(* Replicated room content and the pull-based synchronisation protocol of   *)
(* src/synchronisation/peer_inbound_service.rs:509-1000 (C03, C11).         *)
(*                                                                          *)
(* Every peer stores rows (last-writer-wins on a totally ordered version),  *)
(* references, deletion records for both, and summarises them per           *)
(* (entity, day) in a daily log with a chained history hash.  A pull        *)
(* compares the two peers' logs and fetches the days that differ.           *)
(*                                                                          *)
(* Hashes are modelled as the values they are computed from (collision      *)
(* resistance).  Versions are drawn from one global counter: the order of   *)
(* (modification date, signature) pairs is total in the code as well.       *)
(*                                                                          *)
(* DEV is the set of deviations of the code from the design that make the   *)
(* properties fail; with DEV = {} the same log-driven protocol satisfies    *)
(* them (checked by TLC), with one deviation switched on TLC returns the    *)
(* schedule that breaks the property.                                       *)
EXTENDS Naturals, FiniteSets, Sequences, TLC
CONSTANTS Peer, Row, Ent, EntOf,   \* EntOf : Row -> Ent
          EntRank,                 \* Ent -> Nat : order of the entities' storage names
          MaxVer, MaxDay, DEV
VARIABLES node,    \* Peer -> Row -> 0 (absent) | version
          vday,    \* version -> day on which it was created (global, immutable once set)
          tomb,    \* Peer -> set of [row, ver, dv] : row deleted at version ver, deletion stamped dv
          edge,    \* Peer -> set of [src, dst, cv] : reference created at version cv of src
          etomb,   \* Peer -> set of [src, dst, cv, dv]
          next,    \* next fresh version
          day      \* current day
vars == <<node, vday, tomb, edge, etomb, next, day>>

NoVer == 0
Vers == 1..MaxVer
Has(d) == d \in DEV

Init == /\ node = [p \in Peer |-> [x \in Row |-> NoVer]]
        /\ vday = [v \in Vers |-> 0]
        /\ tomb = [p \in Peer |-> {}]
        /\ edge = [p \in Peer |-> {}]
        /\ etomb = [p \in Peer |-> {}]
        /\ next = 1 /\ day = 0

Fresh == next <= MaxVer
Stamp == vday' = [vday EXCEPT ![next] = day] /\ next' = next + 1

\* ---------------------------------------------------------------- local operations
Create(p, x) ==
    /\ Fresh /\ \A q \in Peer : node[q][x] = NoVer /\ ~\E t \in tomb[q] : t.row = x
    /\ node' = [node EXCEPT ![p][x] = next] /\ Stamp
    /\ UNCHANGED <<tomb, edge, etomb, day>>

Update(p, x) ==
    /\ Fresh /\ node[p][x] # NoVer
    /\ node' = [node EXCEPT ![p][x] = next] /\ Stamp
    /\ UNCHANGED <<tomb, edge, etomb, day>>

\* adding a reference re-signs the source row at the same date
AddRef(p, x, y) ==
    /\ Fresh /\ node[p][x] # NoVer /\ node[p][y] # NoVer /\ x # y
    /\ ~\E e \in edge[p] : e.src = x /\ e.dst = y
    /\ node' = [node EXCEPT ![p][x] = next]
    /\ edge' = [edge EXCEPT ![p] = @ \cup {[src |-> x, dst |-> y, cv |-> next]}]
    /\ Stamp /\ UNCHANGED <<tomb, etomb, day>>

RemoveRef(p, x, y) ==
    /\ Fresh /\ node[p][x] # NoVer
    /\ \E e \in edge[p] :
         /\ e.src = x /\ e.dst = y
         /\ edge' = [edge EXCEPT ![p] = @ \ {e}]
         /\ etomb' = [etomb EXCEPT ![p] = @ \cup {[src |-> x, dst |-> y, cv |-> e.cv, dv |-> next]}]
    /\ node' = [node EXCEPT ![p][x] = next]
    /\ Stamp /\ UNCHANGED <<tomb, day>>

Delete(p, x) ==
    /\ Fresh /\ node[p][x] # NoVer
    /\ tomb' = [tomb EXCEPT ![p] = @ \cup {[row |-> x, ver |-> node[p][x], dv |-> next]}]
    /\ node' = [node EXCEPT ![p][x] = NoVer]
    /\ edge' = [edge EXCEPT ![p] = {e \in @ : e.src # x /\ e.dst # x}]
    /\ Stamp /\ UNCHANGED <<etomb, day>>

Tick == day < MaxDay /\ day' = day + 1 /\ UNCHANGED <<node, vday, tomb, edge, etomb, next>>

\* ---------------------------------------------------------------- the daily log (as a function of content)
DayOf(v) == vday[v]
\* a reference is visible when both its ends are (a deletion received from a peer leaves the
\* references of the row in place; they cannot be observed through a query)
Vis(nd, E) == {g \in E : nd[g.src] # NoVer /\ nd[g.dst] # NoVer}
VisEdges(p) == Vis(node[p], edge[p])
\* what the daily hash of (p, e, d) is computed from
DayContent(p, e, d) ==
    {<<"n", x, node[p][x]>> : x \in {y \in Row : EntOf[y] = e /\ node[p][y] # NoVer /\ DayOf(node[p][y]) = d}}
    \cup {<<"t", t.row, t.ver, t.dv>> : t \in {u \in tomb[p] : EntOf[u.row] = e /\ DayOf(u.dv) = d}}
    \cup {<<"et", t.src, t.dst, t.cv, t.dv>> : t \in {u \in etomb[p] : EntOf[u.src] = e /\ DayOf(u.dv) = d}}
    \cup (IF Has("EdgesOnlyWithNewerNode") THEN {}   \* the code's hash ignores references
          ELSE {<<"e", g.src, g.dst, g.cv>> : g \in {h \in VisEdges(p) : EntOf[h.src] = e /\ DayOf(h.cv) = d}})
Days == 0..MaxDay
LogRows(p) == {<<e, d>> \in Ent \X Days : DayContent(p, e, d) # {}}
\* history hash of (p, e, d): everything of that entity on earlier days
History(p, e, d) == {<<d2, DayContent(p, e, d2)>> : d2 \in {d3 \in Days : d3 < d /\ <<e, d3>> \in LogRows(p)}}
LastDay(p) == IF LogRows(p) = {} THEN 0 ELSE CHOOSE d \in Days : (\E e \in Ent : <<e, d>> \in LogRows(p)) /\ \A r \in LogRows(p) : r[2] <= d
\* the room definition log: what one packet says about the whole room
\* code: ONE entity's row of the last day (whichever the join returns first); design: every entity
DefLogChoices(p) ==
    IF LogRows(p) = {} THEN {<<"empty">>}
    ELSE IF Has("DefLogSingleEntity")
         THEN LET cands == {f \in Ent : <<f, LastDay(p)>> \in LogRows(p)}
                  e == CHOOSE f \in cands : \A g \in cands : EntRank[f] <= EntRank[g]   \* first row of the join
              IN {<<LastDay(p), DayContent(p, e, LastDay(p)), History(p, e, LastDay(p))>>}
         ELSE {<<LastDay(p), [e \in Ent |-> DayContent(p, e, LastDay(p))], [e \in Ent |-> History(p, e, LastDay(p) + 1)]>>}

\* ---------------------------------------------------------------- one day of one entity (synchronise_day)
Covered(T, x, v) == \E t \in T : t.row = x /\ t.ver >= v
\* state after p has processed (e, d) of q, as a record over the five per-peer components of p
SyncDay(st, q, e, d) ==
    LET qet == {t \in etomb[q] : EntOf[t.src] = e /\ DayOf(t.dv) = d}
        qt  == {t \in tomb[q] : EntOf[t.row] = e /\ DayOf(t.dv) = d}
        \* 1. reference deletions, 2. row deletions (the code deletes whatever version is stored)
        edge1 == {g \in st.edge : ~\E t \in qet : t.src = g.src /\ t.dst = g.dst /\ t.cv = g.cv}
        etomb1 == st.etomb \cup qet
        killed == {x \in Row : \E t \in qt : t.row = x /\ st.node[x] # NoVer
                                  /\ (Has("TombstoneDeletesAnyVersion") \/ st.node[x] <= t.ver)}
        node1 == [x \in Row |-> IF x \in killed THEN NoVer ELSE st.node[x]]
        edge2 == edge1           \* delete_all removes the row only; its references stay (invisible)
        tomb1 == st.tomb \cup qt
        \* 3. rows of that day the remote has and that win locally
        cand == {x \in Row : EntOf[x] = e /\ node[q][x] # NoVer /\ DayOf(node[q][x]) = d}
        take == {x \in cand : node[q][x] > node1[x]
                              /\ (Has("IngestIgnoresTombstone") \/ ~Covered(tomb1, x, node[q][x]))}
        node2 == [x \in Row |-> IF x \in take THEN node[q][x] ELSE node1[x]]
        \* 4. references: of the fetched rows, created since the version we had (code) /
        \*    every reference of that day's rows that is not deleted (design)
        newedges == IF Has("EdgesOnlyWithNewerNode")
                    THEN {g \in edge[q] : g.src \in take /\ (node1[g.src] = NoVer \/ g.cv >= node1[g.src])}
                    ELSE {g \in VisEdges(q) : EntOf[g.src] = e /\ DayOf(g.cv) = d}
        edge3 == edge2 \cup {g \in newedges : ~\E t \in etomb1 : t.src = g.src /\ t.dst = g.dst /\ t.cv = g.cv}
    IN [node |-> node2, tomb |-> tomb1, edge |-> edge3, etomb |-> etomb1]

RECURSIVE SyncDays(_, _, _)
SyncDays(st, q, S) ==
    IF S = {} THEN st
    ELSE LET r == CHOOSE r \in S : \A r2 \in S : r[2] <= r2[2]     \* the log is visited in date order
         IN SyncDays(SyncDay(st, q, r[1], r[2]), q, S \ {r})

MyState(p) == [node |-> node[p], tomb |-> tomb[p], edge |-> edge[p], etomb |-> etomb[p]]

\* which (entity, day) pairs a pull visits, given the two definition logs
Visit(p, q, lp, lq) ==
    IF lq = <<"empty">> THEN {}
    ELSE IF lp = <<"empty">> \/ lp[1] # lq[1] \/ lp[3] # lq[3]
         THEN \* whole history: every remote row whose daily hash differs locally
              {r \in LogRows(q) : r \notin LogRows(p) \/ DayContent(p, r[1], r[2]) # DayContent(q, r[1], r[2])}
         ELSE IF lp[2] # lq[2] THEN {r \in LogRows(q) : r[2] = lq[1]}   \* last day only, all its entities
              ELSE {}

Pull(p, q) ==
    /\ p # q
    /\ \E lp \in DefLogChoices(p), lq \in DefLogChoices(q) :
         LET st == SyncDays(MyState(p), q, Visit(p, q, lp, lq))
         IN /\ node' = [node EXCEPT ![p] = st.node]
            /\ tomb' = [tomb EXCEPT ![p] = st.tomb]
            /\ edge' = [edge EXCEPT ![p] = st.edge]
            /\ etomb' = [etomb EXCEPT ![p] = st.etomb]
    /\ UNCHANGED <<vday, next, day>>

\* an interrupted pull: only some of the days were processed
PartialPull(p, q) ==
    /\ p # q
    /\ \E lp \in DefLogChoices(p), lq \in DefLogChoices(q) :
       \E S \in SUBSET Visit(p, q, lp, lq) :
         LET st == SyncDays(MyState(p), q, S)
         IN /\ node' = [node EXCEPT ![p] = st.node]
            /\ tomb' = [tomb EXCEPT ![p] = st.tomb]
            /\ edge' = [edge EXCEPT ![p] = st.edge]
            /\ etomb' = [etomb EXCEPT ![p] = st.etomb]
    /\ UNCHANGED <<vday, next, day>>

Next == \/ \E p \in Peer, x \in Row : Create(p, x) \/ Update(p, x) \/ Delete(p, x)
        \/ \E p \in Peer, x, y \in Row : AddRef(p, x, y) \/ RemoveRef(p, x, y)
        \/ Tick
        \/ \E p, q \in Peer : Pull(p, q) \/ PartialPull(p, q)
Spec == Init /\ [][Next]_vars

\* ---------------------------------------------------------------- properties
\* C11: a deleted row stays deleted (in every state)
TombstoneSticks == \A p \in Peer : \A t \in tomb[p] : node[p][t.row] = NoVer \/ node[p][t.row] > t.ver
TombstonesKept == [][\A p \in Peer : tomb[p] \subseteq tomb'[p] /\ etomb[p] \subseteq etomb'[p]]_vars

\* C03: when a full round of pulls transfers nothing, everybody stores the same thing
SameSt(s1, s2) == s1.node = s2.node /\ s1.tomb = s2.tomb /\ s1.etomb = s2.etomb /\ Vis(s1.node, s1.edge) = Vis(s2.node, s2.edge)
PullIsNoOp(p, q) == \A lp \in DefLogChoices(p), lq \in DefLogChoices(q) :
                       SameSt(SyncDays(MyState(p), q, Visit(p, q, lp, lq)), MyState(p))
Quiescent == \A p, q \in Peer : p # q => PullIsNoOp(p, q)
Same(p, q) == node[p] = node[q] /\ tomb[p] = tomb[q] /\ VisEdges(p) = VisEdges(q) /\ etomb[p] = etomb[q]
Converged == Quiescent => \A p, q \in Peer : Same(p, q)
\* the same version wins everywhere: the newest version ever created, unless the row was deleted
SameWinner == Quiescent => \A x \in Row, p, q \in Peer : node[p][x] = node[q][x]
\* converged peers transfer nothing
NoTransferWhenConverged == (\A p, q \in Peer : Same(p, q)) => \A p, q \in Peer : p # q =>
      \A lp \in DefLogChoices(p), lq \in DefLogChoices(q) : Visit(p, q, lp, lq) = {}
\* once everybody is quiescent a deleted row is absent everywhere and its record is everywhere
DeletedEverywhere == Quiescent => \A p, q \in Peer : \A t \in tomb[p] : t \in tomb[q] /\ (node[q][t.row] = NoVer \/ node[q][t.row] > t.ver)
=============================================================================
