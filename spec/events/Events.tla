------------------------------- MODULE Events -------------------------------
(* The announcement pipeline of one instance (C18).                         *)
(* A change travels  db actor -> reader pool -> authorisation actor ->      *)
(* writer; a recomputation request travels  db actor -> writer.  The writer *)
(* handles a batch in one transaction: the dirty marks of the batch are     *)
(* written at its end, and a recomputation found in a batch announces (and  *)
(* clears) the marks committed by EARLIER batches only                      *)
(* (sqlite_database.rs:603-725, graph_database.rs:207-244, 273-342).        *)
(* A single mutate() waits for its acknowledgement before it asks for the   *)
(* recomputation; the mutation stream asks for it when the stream is        *)
(* closed, without waiting for the acknowledgements (deviation              *)
(* StreamRecomputeOvertakesWrites).                                         *)
EXTENDS Naturals, Sequences, FiniteSets, TLC
CONSTANTS NMut, MaxBatch, DEV
VARIABLES sent,      \* number of stream items handed to the db actor
          closed,    \* the stream has been closed
          asked,     \* the recomputation of the stream has been requested
          dbq,       \* db actor queue: seq of <<"mut", i>> | <<"compute">>
          readers,   \* set of mutations being read on the reader pool (any order)
          authq,     \* authorisation actor queue
          wq,        \* writer queue
          committed, marks, announced, acked
vars == <<sent, closed, asked, dbq, readers, authq, wq, committed, marks, announced, acked>>
Has(d) == d \in DEV
Muts == 1..NMut
Init == /\ sent = 0 /\ closed = FALSE /\ asked = FALSE /\ dbq = <<>> /\ readers = {} /\ authq = <<>> /\ wq = <<>>
        /\ committed = {} /\ marks = {} /\ announced = {} /\ acked = {}

Send == /\ sent < NMut /\ ~closed /\ sent' = sent + 1 /\ dbq' = Append(dbq, <<"mut", sent + 1>>)
        /\ UNCHANGED <<closed, asked, readers, authq, wq, committed, marks, announced, acked>>
Close == /\ sent = NMut /\ ~closed /\ closed' = TRUE
         /\ UNCHANGED <<sent, asked, dbq, readers, authq, wq, committed, marks, announced, acked>>
\* the request for recomputation: when the stream is closed (code) / when every item has been acknowledged (design)
AskCompute == /\ closed /\ ~asked /\ (Has("StreamRecomputeOvertakesWrites") \/ acked = Muts)
              /\ asked' = TRUE /\ dbq' = Append(dbq, <<"compute">>)
              /\ UNCHANGED <<sent, closed, readers, authq, wq, committed, marks, announced, acked>>
DbActor == /\ dbq # <<>>
           /\ LET m == Head(dbq) IN
              IF m[1] = "mut" THEN readers' = readers \cup {m[2]} /\ UNCHANGED wq
              ELSE wq' = Append(wq, m) /\ UNCHANGED readers
           /\ dbq' = Tail(dbq)
           /\ UNCHANGED <<sent, closed, asked, authq, committed, marks, announced, acked>>
Reader == \E i \in readers : /\ readers' = readers \ {i} /\ authq' = Append(authq, <<"mut", i>>)
                            /\ UNCHANGED <<sent, closed, asked, dbq, wq, committed, marks, announced, acked>>
Auth == /\ authq # <<>> /\ wq' = Append(wq, Head(authq)) /\ authq' = Tail(authq)
        /\ UNCHANGED <<sent, closed, asked, dbq, readers, committed, marks, announced, acked>>
\* one batch: a non empty prefix of the writer queue
Writer == \E k \in 1..MaxBatch :
            /\ k <= Len(wq)
            /\ LET batch == SubSeq(wq, 1, k)
                   ms == {batch[j][2] : j \in {n \in 1..k : batch[n][1] = "mut"}}
                   comp == \E j \in 1..k : batch[j][1] = "compute"
               IN /\ committed' = committed \cup ms
                  /\ announced' = IF comp THEN announced \cup marks ELSE announced
                  /\ marks' = (IF comp THEN {} ELSE marks) \cup ms
                  /\ acked' = acked \cup ms
            /\ wq' = SubSeq(wq, k + 1, Len(wq))
            /\ UNCHANGED <<sent, closed, asked, dbq, readers, authq>>
Next == Send \/ Close \/ AskCompute \/ DbActor \/ Reader \/ Auth \/ Writer
Spec == Init /\ [][Next]_vars
Quiet == closed /\ asked /\ dbq = <<>> /\ readers = {} /\ authq = <<>> /\ wq = <<>>
\* every committed change has been announced once the instance is quiet
AnnouncedAtQuiescence == Quiet => (committed \subseteq announced /\ marks = {})
=============================================================================
