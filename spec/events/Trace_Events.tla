---------------------------- MODULE Trace_Events ----------------------------
(* C18 on traces of real peers.  After every operation the harness waits    *)
(* until the instance is quiet (barriers through the db actor, the writer   *)
(* and the event service) and logs the events each subscriber received.     *)
(* A changed (room, entity, day) must be announced; as long as a dirty mark *)
(* remains for it a later recomputation can still announce it, so it is     *)
(* lost when no mark remains or when the scenario ends.                     *)
EXTENDS Naturals, FiniteSets, Sequences, Json, IOUtils, TLC
CONSTANTS KNOWN
Rec == ndJsonDeserialize(IOEnv.TRACE)
VARIABLES l, st, peers, bad, devs, sid,
          pending,   \* <<p, room, ent, day, origin>> changed and not yet announced
          knows      \* <<p, room>> the peer has the room definition
tvars == <<l, st, peers, bad, devs, sid, pending, knows>>
ToSet(s) == {s[i] : i \in DOMAIN s}
Ev == Rec[l]
Empty == [nodes |-> <<>>, edges |-> <<>>, ntombs |-> <<>>, etombs |-> <<>>, log |-> <<>>]
DayOf(m) == m \div 1000
Items(s, p) == {<<n.room, n.ent, DayOf(n.m), n.s>> : n \in ToSet(s[p].nodes)}
               \cup {<<t.room, t.ent, DayOf(t.d), t.s>> : t \in ToSet(s[p].ntombs)}
               \cup {<<t.room, t.ent, DayOf(t.d), t.s>> : t \in ToSet(s[p].etombs)}
Triples(I) == {<<i[1], i[2], i[3]>> : i \in I}
Content(I, t) == {i[4] : i \in {j \in I : <<j[1], j[2], j[3]>> = t}}
Changed(s0, s1, p) == {t \in Triples(Items(s0, p)) \cup Triples(Items(s1, p)) : Content(Items(s0, p), t) # Content(Items(s1, p), t)}
Announced(p) == {<<e.room, e.ent, e.day>> : e \in {x \in ToSet(Ev.events[p]) : x.k = "data"}}
RoomEvents(p) == {e.room : e \in {x \in ToSet(Ev.events[p]) : x.k = "room"}}
DirtyTriples(s, p) == {<<g.room, g.ent, g.day>> : g \in {x \in ToSet(s[p].log) : x.dirty}}
Origin == IF Ev.ev = "pull" /\ Ev.res = "err" THEN "pullerr" ELSE Ev.ev

Attribute(o) == IF o[1] \in {"lost", "never"} /\ o[6] = "stream" THEN "StreamRecomputeOvertakesWrites"
                ELSE IF o[1] \in {"lost", "never"} /\ o[6] = "pullerr" THEN "SyncErrorSkipsRecompute"
                ELSE "none"
Classify(objs) ==
    LET named == {<<o, Attribute(o)>> : o \in objs}
    IN /\ bad' = bad \cup {<<"UNEXPLAINED", x[1]>> : x \in {y \in named : y[2] \notin KNOWN}}
       /\ devs' = devs \cup {x[2] : x \in {y \in named : y[2] \in KNOWN}}

Observed == [p \in peers |-> Ev.st[p]]
Step ==
    /\ l <= Len(Rec) /\ Ev.ev \notin {"begin", "end"} /\ l' = l + 1
    /\ LET s1 == Observed
           newp == UNION {{<<p, t[1], t[2], t[3], Origin>> : t \in Changed(st, s1, p)} : p \in peers}
           all == {x \in pending \cup newp : <<x[2], x[3], x[4]>> \notin Announced(x[1])}
           \* a pending change whose dirty mark is gone can no longer be announced; the announcement is asynchronous, so a change
           \* of this very step is given until the next observation (every scenario ends with idle steps)
           lost == {x \in all \cap pending : <<x[2], x[3], x[4]>> \notin DirtyTriples(s1, x[1])}
           \* room definitions: creation announces on the creator, a first import announces on the importer
           roommiss == IF Ev.ev = "room" /\ Ev.res = "ok" /\ Ev.room \notin RoomEvents(Ev.p) THEN {<<"noroomevent", Ev.p, Ev.room, "x", "x", "room">>}
                       ELSE IF Ev.ev = "pull" /\ Ev.res = "ok" /\ <<Ev.p, Ev.room>> \notin knows /\ Ev.room \notin RoomEvents(Ev.p)
                            THEN {<<"noroomevent", Ev.p, Ev.room, "x", "x", "pull">>} ELSE {}
       IN /\ st' = s1
          /\ pending' = all \ lost
          /\ Classify({<<"lost", x[1], x[2], x[3], x[4], x[5]>> : x \in lost} \cup roommiss)
          /\ knows' = IF Ev.ev = "room" /\ Ev.res = "ok" THEN knows \cup {<<Ev.p, Ev.room>>}
                      ELSE IF Ev.ev = "pull" /\ Ev.res = "ok" THEN knows \cup {<<Ev.p, Ev.room>>} ELSE knows
    /\ UNCHANGED <<peers, sid>>
Begin == /\ l <= Len(Rec) /\ Ev.ev = "begin" /\ l' = l + 1 /\ peers' = ToSet(Ev.peers) /\ sid' = Ev.sid
         /\ st' = [p \in ToSet(Ev.peers) |-> Empty] /\ bad' = {} /\ devs' = {} /\ pending' = {} /\ knows' = {}
End == /\ l <= Len(Rec) /\ Ev.ev = "end" /\ l' = l + 1
       /\ Classify({<<"never", x[1], x[2], x[3], x[4], x[5]>> : x \in pending})
       /\ PrintT(<<"DEVS", sid, devs'>>)
       /\ UNCHANGED <<st, peers, sid, pending, knows>>
TInit == l = 1 /\ st = <<>> /\ peers = {} /\ bad = {} /\ devs = {} /\ sid = 0 /\ pending = {} /\ knows = {}
TNext == Begin \/ Step \/ End
TSpec == TInit /\ [][TNext]_tvars
Monitors == \A o \in bad : o[1] # "UNEXPLAINED"
Reached == PrintT(<<"REACHED", TLCGet("stats").diameter - 1, Len(Rec)>>)
=============================================================================
