----------------------------- MODULE Gen_Events -----------------------------
(* Scenario generator for C18: sequences of local changes (single and       *)
(* streamed), deletions, days and pulls (complete or interrupted) on two    *)
(* peers.  Only the environment's choices matter here, so the state is the  *)
(* set of rows each peer holds.                                             *)
EXTENDS Naturals, Sequences, FiniteSets, TLC, Json
CONSTANTS MaxLen, Mode
VARIABLES has, created, hist
gvars == <<has, created, hist>>
Peer == {"p1", "p2"}
Row == {"x1", "x2", "x3", "x4"}
EntOf(x) == IF x \in {"x1", "x2"} THEN "A" ELSE "B"
GInit == has = [p \in Peer |-> {}] /\ created = {} /\ hist = <<>>
H(m) == hist' = Append(hist, m)
Put(p, x) == /\ (x \notin created \/ x \in has[p])
             /\ has' = [has EXCEPT ![p] = @ \cup {x}] /\ created' = created \cup {x}
             /\ H([op |-> "put", p |-> p, row |-> x, ent |-> EntOf(x)])
Stream(p, S) == /\ Cardinality(S) >= 2 /\ S \cap created = {}
                /\ has' = [has EXCEPT ![p] = @ \cup S] /\ created' = created \cup S
                /\ H([op |-> "stream", p |-> p, rows |-> S])
Del(p, x) == /\ x \in has[p] /\ has' = [has EXCEPT ![p] = @ \ {x}] /\ UNCHANGED created
             /\ H([op |-> "del", p |-> p, row |-> x, ent |-> EntOf(x)])
Pull(p, q, ab) == /\ p # q /\ has[q] # {}
                  /\ has' = [has EXCEPT ![p] = IF ab THEN @ ELSE @ \cup has[q]] /\ UNCHANGED created
                  /\ H([op |-> "pull", p |-> p, q |-> q, abort |-> ab])
Day == Len(hist) > 0 /\ hist[Len(hist)].op # "day" /\ UNCHANGED <<has, created>> /\ H([op |-> "day"])
GNext == \/ \E p \in Peer, x \in Row : Put(p, x) \/ Del(p, x)
         \/ \E p \in Peer, S \in SUBSET Row : Stream(p, S)
         \/ \E p, q \in Peer, ab \in BOOLEAN : Pull(p, q, ab)
         \/ Day
GSpec == GInit /\ [][GNext]_gvars
Emit == Len(hist) # MaxLen \/ PrintT(<<"SCN", ToJson(hist)>>)
=============================================================================
