----------------------------- MODULE Gen_Events -----------------------------
(* Scenario generator for C18: sequences of local changes (single and       *)
(* streamed), deletions, days and pulls (complete or interrupted) on two    *)
(* peers.  Only the environment's choices matter here, so the state is the  *)
(* set of rows each peer holds.                                             *)
EXTENDS Naturals, Sequences, FiniteSets, TLC, Json
CONSTANTS MaxLen, Mode
VARIABLES has, created, hist, where
gvars == <<has, created, hist, where>>
Peer == {"p1", "p2"}
Row == {"x1", "x2", "x3", "x4"}
EntOf(x) == IF x \in {"x1", "x2"} THEN "A" ELSE "B"
GInit == has = [p \in Peer |-> {}] /\ created = {} /\ hist = <<>> /\ where = [x \in Row |-> "R1"]
H(m) == hist' = Append(hist, m)
Put(p, x) == /\ (x \notin created \/ x \in has[p])
             /\ has' = [has EXCEPT ![p] = @ \cup {x}] /\ created' = created \cup {x}
             /\ H([op |-> "put", p |-> p, row |-> x, ent |-> EntOf(x)]) /\ UNCHANGED where
Stream(p, S) == /\ Cardinality(S) >= 2 /\ S \cap created = {}
                /\ has' = [has EXCEPT ![p] = @ \cup S] /\ created' = created \cup S
                /\ H([op |-> "stream", p |-> p, rows |-> S]) /\ UNCHANGED where
Del(p, x) == /\ x \in has[p] /\ has' = [has EXCEPT ![p] = @ \ {x}] /\ UNCHANGED created
             /\ H([op |-> "del", p |-> p, row |-> x, ent |-> EntOf(x)]) /\ UNCHANGED where
\* a row is moved to the other room: both rooms change
Move(p, x) == /\ x \in has[p] /\ UNCHANGED <<has, created>>
              /\ where' = [where EXCEPT ![x] = IF @ = "R1" THEN "R2" ELSE "R1"]
              /\ H([op |-> "move", p |-> p, row |-> x, ent |-> EntOf(x), room |-> where'[x]])
Pull(p, q, ab) == /\ p # q /\ has[q] # {}
                  /\ has' = [has EXCEPT ![p] = IF ab THEN @ ELSE @ \cup has[q]] /\ UNCHANGED created
                  /\ H([op |-> "pull", p |-> p, q |-> q, abort |-> ab]) /\ UNCHANGED where
Day == Len(hist) > 0 /\ hist[Len(hist)].op # "day" /\ UNCHANGED <<has, created, where>> /\ H([op |-> "day"])
GNext == \/ \E p \in Peer, x \in Row : Put(p, x) \/ Del(p, x) \/ Move(p, x)
         \/ \E p \in Peer, S \in SUBSET Row : Stream(p, S)
         \/ \E p, q \in Peer, ab \in BOOLEAN : Pull(p, q, ab)
         \/ Day
GSpec == GInit /\ [][GNext]_gvars
Emit == Len(hist) # MaxLen \/ PrintT(<<"SCN", ToJson(hist)>>)
=============================================================================
