--------------------------- MODULE Trace_Service ---------------------------
(* C14 on a real instance (dv inputs).  After every input the harness logs  *)
(* what the call returned, the number of panics raised meanwhile in any     *)
(* thread of the process, and the answers of four probes (reader pool with  *)
(* more calls than it has threads, writer, verifier pool, serving loop of a *)
(* connection).  The monitors are the invariants of Service.tla on the      *)
(* observation: ResultOrError (no panic, no hang), NoThreadLost (panic      *)
(* count), AlwaysAnswers (probes), ValidExecutes (a valid request is not    *)
(* refused and not rejected by the storage engine).                         *)
EXTENDS Naturals, FiniteSets, Sequences, Json, IOUtils, TLC
CONSTANTS KNOWN
Rec == ndJsonDeserialize(IOEnv.TRACE)
VARIABLES l, bad, devs, sid
tvars == <<l, bad, devs, sid>>
Ev == Rec[l]
Prefix(s, p) == Len(s) >= Len(p) /\ SubSeq(s, 1, Len(p)) = p
Class(o) == IF o = "ok" THEN "ok" ELSE IF Prefix(o, "refused") THEN "refused" ELSE IF Prefix(o, "engine") THEN "engine"
            ELSE IF Prefix(o, "panic") THEN "panic" ELSE IF Prefix(o, "hang") THEN "hang" ELSE IF Prefix(o, "dead") THEN "dead" ELSE "other"
ProbeOK == Ev.probe.read = "ok" /\ Ev.probe.write = "ok" /\ Ev.probe.verify = "ok" /\ Ev.probe.serve = "ok"
InputBad ==
    (IF Ev.panics > 0 \/ Class(Ev.outcome) = "panic" THEN {<<"panic", Ev.shape, Ev.n, Ev["where"]>>} ELSE {})
    \cup (IF Class(Ev.outcome) \in {"hang", "dead", "other"} THEN {<<"no answer", Ev.shape, Ev.n, Ev.outcome>>} ELSE {})
    \cup (IF ~ProbeOK THEN {<<"instance does not answer", Ev.shape, Ev.n, ToString(Ev.probe)>>} ELSE {})
    \cup (IF Ev.valid /\ Class(Ev.outcome) = "engine" THEN {<<"valid request rejected by the engine", Ev.shape, Ev.n, Ev.outcome>>} ELSE {})
    \cup (IF Ev.valid /\ Class(Ev.outcome) = "refused" THEN {<<"valid request refused", Ev.shape, Ev.n, Ev.outcome>>} ELSE {})
StartBad ==
    (IF Ev.panics > 0 \/ Class(Ev.outcome) \in {"panic", "hang", "dead", "other"} THEN {<<"panic", "model", 0, Ev["where"]>>} ELSE {})
    \cup (IF Class(Ev.outcome) = "engine" THEN {<<"valid request rejected by the engine", "model", 0, Ev.outcome>>} ELSE {})
    \cup (IF Ev.valid /\ Class(Ev.outcome) = "refused" THEN {<<"valid request refused", "model", 0, Ev.outcome>>} ELSE {})
Step == /\ l <= Len(Rec) /\ Ev.ev \in {"input", "start"} /\ l' = l + 1
        /\ LET nb == IF Ev.ev = "input" THEN InputBad ELSE StartBad
               Name(y) == y[2] \o ": " \o y[1]
           IN /\ bad' = bad \cup {<<"UNEXPLAINED", x>> : x \in {y \in nb : Name(y) \notin KNOWN}}
              /\ devs' = devs \cup {Name(x) : x \in {y \in nb : Name(y) \in KNOWN}}
        /\ UNCHANGED sid
Begin == /\ l <= Len(Rec) /\ Ev.ev = "begin" /\ l' = l + 1 /\ sid' = Ev.sid /\ bad' = {} /\ devs' = {}
End == /\ l <= Len(Rec) /\ Ev.ev = "end" /\ l' = l + 1 /\ PrintT(<<"DEVS", sid, devs>>) /\ UNCHANGED <<bad, devs, sid>>
TInit == l = 1 /\ bad = {} /\ devs = {} /\ sid = 0
TNext == Begin \/ Step \/ End
TSpec == TInit /\ [][TNext]_tvars
Monitors == \A o \in bad : o[1] # "UNEXPLAINED"
Reached == PrintT(<<"REACHED", TLCGet("stats").diameter - 1, Len(Rec)>>)
=============================================================================
