---- MODULE Service_TTrace_1790183820 ----
EXTENDS Sequences, TLCExt, Toolbox, Service, Naturals, TLC

_expression ==
    LET Service_TEExpression == INSTANCE Service_TEExpression
    IN Service_TEExpression!expression
----

_trace ==
    LET Service_TETrace == INSTANCE Service_TETrace
    IN Service_TETrace!trace
----

_inv ==
    ~(
        TLCGet("level") = Len(_TETrace)
        /\
        alive = ([reader |-> 2, verifier |-> 1, writer |-> 1, conn |-> 1, caller |-> 1])
        /\
        answers = (TRUE)
        /\
        lastvalid = (FALSE)
        /\
        outcome = ("panic")
        /\
        n = (1)
    )
----

_init ==
    /\ lastvalid = _TETrace[1].lastvalid
    /\ alive = _TETrace[1].alive
    /\ outcome = _TETrace[1].outcome
    /\ n = _TETrace[1].n
    /\ answers = _TETrace[1].answers
----

_next ==
    /\ \E i,j \in DOMAIN _TETrace:
        /\ \/ /\ j = i + 1
              /\ i = TLCGet("level")
        /\ lastvalid  = _TETrace[i].lastvalid
        /\ lastvalid' = _TETrace[j].lastvalid
        /\ alive  = _TETrace[i].alive
        /\ alive' = _TETrace[j].alive
        /\ outcome  = _TETrace[i].outcome
        /\ outcome' = _TETrace[j].outcome
        /\ n  = _TETrace[i].n
        /\ n' = _TETrace[j].n
        /\ answers  = _TETrace[i].answers
        /\ answers' = _TETrace[j].answers

\* Uncomment the ASSUME below to write the states of the error trace
\* to the given file in Json format. Note that you can pass any tuple
\* to `JsonSerialize`. For example, a sub-sequence of _TETrace.
    \* ASSUME
    \*     LET J == INSTANCE Json
    \*         IN J!JsonSerialize("Service_TTrace_1790183820.json", _TETrace)

=============================================================================

 Note that you can extract this module `Service_TEExpression`
  to a dedicated file to reuse `expression` (the module in the 
  dedicated `Service_TEExpression.tla` file takes precedence 
  over the module `Service_TEExpression` below).

---- MODULE Service_TEExpression ----
EXTENDS Sequences, TLCExt, Toolbox, Service, Naturals, TLC

expression == 
    [
        \* To hide variables of the `Service` spec from the error trace,
        \* remove the variables below.  The trace will be written in the order
        \* of the fields of this record.
        lastvalid |-> lastvalid
        ,alive |-> alive
        ,outcome |-> outcome
        ,n |-> n
        ,answers |-> answers
        
        \* Put additional constant-, state-, and action-level expressions here:
        \* ,_stateNumber |-> _TEPosition
        \* ,_lastvalidUnchanged |-> lastvalid = lastvalid'
        
        \* Format the `lastvalid` variable as Json value.
        \* ,_lastvalidJson |->
        \*     LET J == INSTANCE Json
        \*     IN J!ToJson(lastvalid)
        
        \* Lastly, you may build expressions over arbitrary sets of states by
        \* leveraging the _TETrace operator.  For example, this is how to
        \* count the number of times a spec variable changed up to the current
        \* state in the trace.
        \* ,_lastvalidModCount |->
        \*     LET F[s \in DOMAIN _TETrace] ==
        \*         IF s = 1 THEN 0
        \*         ELSE IF _TETrace[s].lastvalid # _TETrace[s-1].lastvalid
        \*             THEN 1 + F[s-1] ELSE F[s-1]
        \*     IN F[_TEPosition - 1]
    ]

=============================================================================



Parsing and semantic processing can take forever if the trace below is long.
 In this case, it is advised to uncomment the module below to deserialize the
 trace from a generated binary file.

\*
\*---- MODULE Service_TETrace ----
\*EXTENDS IOUtils, Service, TLC
\*
\*trace == IODeserialize("Service_TTrace_1790183820.bin", TRUE)
\*
\*=============================================================================
\*

---- MODULE Service_TETrace ----
EXTENDS Service, TLC

trace == 
    <<
    ([alive |-> [reader |-> 2, verifier |-> 2, writer |-> 1, conn |-> 1, caller |-> 1],answers |-> TRUE,lastvalid |-> FALSE,outcome |-> "none",n |-> 0]),
    ([alive |-> [reader |-> 2, verifier |-> 1, writer |-> 1, conn |-> 1, caller |-> 1],answers |-> TRUE,lastvalid |-> FALSE,outcome |-> "panic",n |-> 1])
    >>
----


=============================================================================

---- CONFIG Service_TTrace_1790183820 ----
CONSTANTS
    Readers = 2
    Verifiers = 2
    Unchecked = { "bad_key_or_signature" }
    Rejected = { }
    MaxLen = 3

INVARIANT
    _inv

CHECK_DEADLOCK
    \* CHECK_DEADLOCK off because of PROPERTY or INVARIANT above.
    FALSE

INIT
    _init

NEXT
    _next

CONSTANT
    _TETrace <- _trace

ALIAS
    _expression
=============================================================================
\* Generated on Wed Sep 23 17:17:01 UTC 2026