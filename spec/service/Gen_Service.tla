---------------------------- MODULE Gen_Service ----------------------------
(* Sequences of input shapes of Service.tla: one scenario per sequence of   *)
(* length <= MaxLen (the check instantiates every shape of a sequence by a  *)
(* concrete input, and also runs every concrete input of every shape).      *)
EXTENDS Service, Json
VARIABLE hist
GInit == Init /\ hist = <<>>
GNext == \E s \in Shapes : Input(s) /\ hist' = Append(hist, s)
GSpec == GInit /\ [][GNext]_<<vars, hist>>
Emit == hist = <<>> \/ PrintT(<<"SCN", ToJson(hist)>>)
View == hist
=============================================================================
