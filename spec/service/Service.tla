------------------------------ MODULE Service ------------------------------
(* C14: an instance keeps answering whatever it is given.                   *)
(*                                                                          *)
(* An instance is a set of executors: a pool of reader threads, a pool of   *)
(* signature verification threads, one writer thread, one serving task per  *)
(* connection, and the caller's own task.  An input has a SHAPE; each shape *)
(* is executed by one executor (Pool).  The code either handles the input - *)
(* the call returns a result or an error - or reaches an assumption it      *)
(* never checked (unwrap, index, unreachable).  Then the executor dies:     *)
(* threads are plain OS threads that nobody restarts.                       *)
(* Unchecked is the set of shapes with such an assumption.  The code had    *)
(* four (see the fix commits); with Unchecked = {} TLC shows the property,  *)
(* with any shape in it TLC shows the loss of a thread after one input and  *)
(* the silence of the pool after as many inputs as it has threads.          *)
EXTENDS Naturals, Sequences, FiniteSets, TLC
CONSTANTS Readers, Verifiers, Unchecked, Rejected, MaxLen
\* the shapes of input (instantiated by checks/c14shapes.py) and the executors each one travels through
Pool == [param_mutation |-> {"caller", "reader", "writer"}, param_filter |-> {"caller", "reader"}, param_missing |-> {"caller", "reader"},
         literal_kind |-> {"caller", "reader", "writer"}, params_json |-> {"caller"}, seed_request |-> {"caller", "reader", "writer"},
         mutated_query |-> {"caller", "reader"}, mutated_mutation |-> {"caller", "reader", "writer"}, mutated_deletion |-> {"caller", "reader", "writer"},
         mutated_model |-> {"caller"}, random_text |-> {"caller", "reader"}, numbers |-> {"caller", "reader", "writer"},
         nesting |-> {"caller", "reader", "writer"}, paging_forms |-> {"caller", "reader"}, json_selector |-> {"caller", "reader"},
         search_term |-> {"caller", "reader"}, odd_ids |-> {"caller", "reader", "writer"}, bad_key_or_signature |-> {"verifier", "caller"},
         odd_row |-> {"verifier", "reader", "writer"}, invitation_bytes |-> {"caller", "reader", "writer"}, wire_bytes |-> {"caller"},
         peer_request |-> {"conn", "reader"}, keyword_scalar_field |-> {"caller", "reader", "writer"},
         keyword_reference_field |-> {"caller", "reader", "writer"}, keyword_entity_name |-> {"caller", "reader", "writer"},
         keyword_namespace |-> {"caller", "reader", "writer"}]
Shapes == DOMAIN Pool
\* shapes all of whose inputs are valid for the language and the model: they must execute
ValidShapes == {"paging_forms", "keyword_scalar_field", "keyword_reference_field", "keyword_entity_name", "keyword_namespace"}
Size == [reader |-> Readers, verifier |-> Verifiers, writer |-> 1, conn |-> 1, caller |-> 1]
VARIABLES alive,    \* executor -> number of live threads
          outcome,  \* what the last call returned
          lastvalid,
          answers,  \* does a probe of every executor get an answer now
          n
vars == <<alive, outcome, lastvalid, answers, n>>
Pools == DOMAIN Size
Init == alive = Size /\ outcome = "none" /\ lastvalid = FALSE /\ answers = TRUE /\ n = 0
Input(s) ==
    /\ n < MaxLen /\ n' = n + 1
    /\ lastvalid' = (s \in ValidShapes)
    /\ IF \E p \in Pool[s] : alive[p] = 0
       THEN outcome' = "silence" /\ UNCHANGED alive
       ELSE IF s \in Unchecked
            THEN outcome' = "panic" /\ \E p \in Pool[s] : alive' = [alive EXCEPT ![p] = @ - 1]
            ELSE /\ UNCHANGED alive
                 /\ outcome' = IF s \in Rejected THEN "engine error" ELSE IF s \in ValidShapes THEN "result" ELSE "result or error"
    /\ answers' = \A p \in Pools : alive'[p] > 0
Next == \E s \in Shapes : Input(s)
Spec == Init /\ [][Next]_vars
ResultOrError == outcome \in {"none", "result", "result or error", "engine error"}
NoThreadLost == alive = Size
AlwaysAnswers == answers
ValidExecutes == lastvalid => outcome = "result"
=============================================================================
