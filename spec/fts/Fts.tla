-------------------------------- MODULE Fts --------------------------------
(* Full text index maintenance (C17), src/database/node.rs:322-409,         *)
(* mutation_query.rs:144-161, deletion.rs:100-122, node.rs:538-568.         *)
(* The index is content-less: an entry is a (storage slot, text) pair and   *)
(* can only be removed by giving the exact previous text.  A new row takes  *)
(* the slot after the largest one in use, so the slot of a deleted last row *)
(* is taken again.                                                          *)
EXTENDS Naturals, FiniteSets, TLC
CONSTANTS Peer, Row, Text, MaxSlot, DEV
VARIABLES rows,   \* Peer -> Row -> NoRow | [text, slot]
          fts     \* Peer -> set of [slot, text]
vars == <<rows, fts>>
NoRow == [text |-> "none", slot |-> 0]
Has(d) == d \in DEV
Init == rows = [p \in Peer |-> [x \in Row |-> NoRow]] /\ fts = [p \in Peer |-> {}]
Slots(p) == {rows[p][x].slot : x \in {y \in Row : rows[p][y] # NoRow}}
NextSlot(p) == IF Slots(p) = {} THEN 1 ELSE (CHOOSE s \in Slots(p) : \A t \in Slots(p) : s >= t) + 1

\* a row written by a local mutation: previous text removed from the index, current text added
Create(p, x, t) == /\ rows[p][x] = NoRow /\ \A q \in Peer : rows[q][x] = NoRow /\ NextSlot(p) <= MaxSlot
                   /\ rows' = [rows EXCEPT ![p][x] = [text |-> t, slot |-> NextSlot(p)]]
                   /\ fts' = [fts EXCEPT ![p] = @ \cup {[slot |-> NextSlot(p), text |-> t]}]
Update(p, x, t) == /\ rows[p][x] # NoRow /\ rows[p][x].text # t
                   /\ rows' = [rows EXCEPT ![p][x].text = t]
                   /\ fts' = [fts EXCEPT ![p] = (@ \ {[slot |-> rows[p][x].slot, text |-> rows[p][x].text]})
                                                 \cup {[slot |-> rows[p][x].slot, text |-> t]}]
\* deletion (local, or received from a peer): the code removes the row only
Delete(p, x) == /\ rows[p][x] # NoRow
                /\ rows' = [rows EXCEPT ![p][x] = NoRow]
                /\ fts' = IF Has("DeleteKeepsIndexEntry") THEN fts
                          ELSE [fts EXCEPT ![p] = @ \ {[slot |-> rows[p][x].slot, text |-> rows[p][x].text]}]
\* a row received from a peer: new row or replacement of an older version; the code writes it with indexing off
SyncWrite(p, q, x) ==
    /\ p # q /\ rows[q][x] # NoRow /\ rows[p][x].text # rows[q][x].text
    /\ LET slot == IF rows[p][x] = NoRow THEN NextSlot(p) ELSE rows[p][x].slot
       IN /\ slot <= MaxSlot
          /\ rows' = [rows EXCEPT ![p][x] = [text |-> rows[q][x].text, slot |-> slot]]
          /\ fts' = IF Has("SyncedRowsNotIndexed") THEN fts
                    ELSE [fts EXCEPT ![p] = (@ \ {[slot |-> slot, text |-> rows[p][x].text]}) \cup {[slot |-> slot, text |-> rows[q][x].text]}]
Next == \E p \in Peer, x \in Row : Delete(p, x) \/ (\E t \in Text : Create(p, x, t) \/ Update(p, x, t)) \/ (\E q \in Peer : SyncWrite(p, q, x))
Spec == Init /\ [][Next]_vars

Search(p, t) == {x \in Row : rows[p][x] # NoRow /\ [slot |-> rows[p][x].slot, text |-> t] \in fts[p]}
SearchExact == \A p \in Peer, t \in Text : Search(p, t) = {x \in Row : rows[p][x] # NoRow /\ rows[p][x].text = t}
=============================================================================
