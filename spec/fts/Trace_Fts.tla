------------------------------ MODULE Trace_Fts ------------------------------
(* C17 on traces of real peers: every "search" event must return, on every  *)
(* peer, exactly the rows of the entity whose current text is the searched  *)
(* token (tokens of the scenarios never contain one another).  A wrong      *)
(* answer is attributed to a deviation of Fts.tla when its guard matches.   *)
EXTENDS Naturals, FiniteSets, Sequences, Json, IOUtils, TLC
CONSTANTS KNOWN
Rec == ndJsonDeserialize(IOEnv.TRACE)
VARIABLES l, peers, bad, devs, sid,
          synced,   \* <<p, row>> last written on p by a pull
          dead,     \* <<p, slot, text>> a row with that text disappeared from that slot of p
          oldtext,  \* <<p, row, text>> text of a row of p that a pull replaced
          oldslot,  \* <<p, slot, text>> the same, by storage slot: the index keeps that text under the slot whoever occupies it later
          st
tvars == <<l, peers, bad, devs, sid, synced, dead, oldtext, oldslot, st>>
ToSet(s) == {s[i] : i \in DOMAIN s}
Ev == Rec[l]
Expected(p) == {n.row : n \in {m \in ToSet(Ev.st[p].nodes) : m.ent = Ev.ent /\ m.text = Ev.tok}}
Found(p) == ToSet(Ev.found[p])
\* objects: <<"missed", p, row>> a current text that is not found; <<"stale", p, row>> a row found for a text it does not have
Wrong == UNION {{<<"missed", p, x>> : x \in Expected(p) \ Found(p)} \cup {<<"stale", p, x>> : x \in Found(p) \ Expected(p)} : p \in peers}
\* guards: a missed row was last written on that peer by synchronisation; a stale match follows a deletion on that peer
SlotOf(p, x) == (CHOOSE n \in ToSet(Ev.st[p].nodes) : n.row = x).slot
Attribute(o) == IF o[1] = "missed" /\ <<o[2], o[3]>> \in synced THEN "SyncedRowsNotIndexed"
                ELSE IF o[1] = "stale" /\ <<o[2], SlotOf(o[2], o[3]), Ev.tok>> \in dead THEN "DeleteKeepsIndexEntry"
                ELSE IF o[1] = "stale" /\ <<o[2], o[3], Ev.tok>> \in oldtext THEN "SyncedRowsNotIndexed"
                ELSE IF o[1] = "stale" /\ <<o[2], SlotOf(o[2], o[3]), Ev.tok>> \in oldslot THEN "SyncedRowsNotIndexed"
                ELSE "none"
RowVer(s, p) == {<<n.row, n.m, n.s, n.slot>> : n \in ToSet(s[p].nodes)}
Step == /\ l <= Len(Rec) /\ Ev.ev \notin {"begin", "end"} /\ l' = l + 1
        /\ IF Ev.ev = "search"
           THEN LET named == {<<o, Attribute(o)>> : o \in Wrong}
                IN /\ bad' = bad \cup {<<"UNEXPLAINED", x[1]>> : x \in {y \in named : y[2] \notin KNOWN}}
                   /\ devs' = devs \cup {x[2] : x \in {y \in named : y[2] \in KNOWN}}
                   /\ UNCHANGED <<synced, dead, oldtext, oldslot, st>>
           ELSE /\ UNCHANGED <<bad, devs>>
                /\ st' = [p \in peers |-> Ev.st[p]]
                \* rows (re)written on the puller by this pull: new rows and new versions
                /\ synced' = IF Ev.ev = "pull"
                             THEN synced \cup {<<Ev.p, n.row>> : n \in {m \in ToSet(Ev.st[Ev.p].nodes) : <<m.row, m.m, m.s, m.slot>> \notin RowVer(st, Ev.p)}}
                             ELSE IF Ev.ev = "put" /\ Ev.res = "ok" THEN synced \ {<<Ev.p, Ev.row>>} ELSE synced
                /\ oldtext' = IF Ev.ev = "pull"
                              THEN oldtext \cup {<<Ev.p, n.row, n.text>> : n \in {m \in ToSet(st[Ev.p].nodes) :
                                       \E k \in ToSet(Ev.st[Ev.p].nodes) : k.row = m.row /\ k.text # m.text}}
                              ELSE oldtext
                /\ oldslot' = IF Ev.ev = "pull"
                              THEN oldslot \cup {<<Ev.p, n.slot, n.text>> : n \in {m \in ToSet(st[Ev.p].nodes) :
                                       \E k \in ToSet(Ev.st[Ev.p].nodes) : k.row = m.row /\ k.text # m.text}}
                              ELSE oldslot
                /\ dead' = dead \cup UNION {{<<p, n.slot, n.text>> : n \in {m \in ToSet(st[p].nodes) : <<m.row, m.slot>> \notin {<<k.row, k.slot>> : k \in ToSet(Ev.st[p].nodes)}}} : p \in peers}
        /\ UNCHANGED <<peers, sid>>
Begin == /\ l <= Len(Rec) /\ Ev.ev = "begin" /\ l' = l + 1 /\ peers' = ToSet(Ev.peers) /\ sid' = Ev.sid
         /\ bad' = {} /\ devs' = {} /\ synced' = {} /\ dead' = {} /\ oldtext' = {} /\ oldslot' = {}
         /\ st' = [p \in ToSet(Ev.peers) |-> [nodes |-> <<>>]]
End == /\ l <= Len(Rec) /\ Ev.ev = "end" /\ l' = l + 1 /\ PrintT(<<"DEVS", sid, devs>>)
       /\ UNCHANGED <<peers, bad, devs, sid, synced, dead, oldtext, oldslot, st>>
TInit == l = 1 /\ peers = {} /\ bad = {} /\ devs = {} /\ sid = 0 /\ synced = {} /\ dead = {} /\ oldtext = {} /\ oldslot = {} /\ st = <<>>
TNext == Begin \/ Step \/ End
TSpec == TInit /\ [][TNext]_tvars
Monitors == \A o \in bad : o[1] # "UNEXPLAINED"
Reached == PrintT(<<"REACHED", TLCGet("stats").diameter - 1, Len(Rec)>>)
=============================================================================
