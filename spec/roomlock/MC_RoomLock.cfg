\* safety + refinement, unbounded number of requests (the state space is finite)
CONSTANTS
  Conn = {c1, c2}
  Room = {r1, r2}
  MaxLock = 1
  NoConn = NoConn
  MaxReq = 0
SPECIFICATION Spec
INVARIANTS TypeOK Bounded LockedIsGiven QueueConsistent NoDuplicateRooms NothingGrantableLeft
PROPERTIES Refines
CHECK_DEADLOCK FALSE
