------------------------------ MODULE ConnLock ------------------------------
(* C20 at the level of a connection (peer_inbound_service.rs): what is done *)
(* with the grants of the lock service.                                     *)
(*                                                                          *)
(* A grant starts a synchronisation task (process_acquired_room): the room  *)
(* enters the connection's `acquired` set, the task runs, then releases the *)
(* room and leaves the set.  When the loop of the connection exits (the     *)
(* peer left, an error) `cleanup` releases every room of `acquired` - also  *)
(* the rooms whose task is still running; such a task releases its room a   *)
(* second time when it ends, and the lock service, which does not know who  *)
(* holds a room, then frees a room that another connection may hold by now. *)
(* A grant travels on a channel: the loop may end while a grant is still in *)
(* it (granted, no task yet); nobody would ever release that room.          *)
(* DEV = {"CleanupReleasesRunningTasks", "ExitForgetsPendingGrants"} is the *)
(* code as it was; DEV = {} the design and the code since fix c804868 (a    *)
(* room is released by the end of its task; the end of the connection       *)
(* releases the grants nobody took in charge).                              *)
EXTENDS Naturals, FiniteSets, Sequences, TLC
CONSTANTS Conn, Room, MaxLock, DEV
VARIABLES locked,    \* rooms the lock service holds
          waiting,   \* Conn -> rooms requested and not granted yet
          pending,   \* Conn -> rooms granted to the connection, still in its channel
          running,   \* Conn -> rooms whose synchronisation task is running (= the `acquired` set of the connection)
          alive      \* Conn -> the loop of the connection is running
vars == <<locked, waiting, pending, running, alive>>
Has(d) == d \in DEV
Avail == MaxLock - Cardinality(locked)
Init == locked = {} /\ waiting = [c \in Conn |-> {}] /\ pending = [c \in Conn |-> {}] /\ running = [c \in Conn |-> {}] /\ alive = [c \in Conn |-> TRUE]
Request(c, r) == /\ alive[c] /\ r \notin waiting[c] \cup pending[c] \cup running[c]
                 /\ waiting' = [waiting EXCEPT ![c] = @ \cup {r}] /\ UNCHANGED <<locked, pending, running, alive>>
\* the service grants a free room to a waiting connection (the grant is sent on the connection's channel) ...
Grant(c, r) == /\ alive[c] /\ r \in waiting[c] /\ r \notin locked /\ Avail > 0
               /\ locked' = locked \cup {r} /\ waiting' = [waiting EXCEPT ![c] = @ \ {r}]
               /\ pending' = [pending EXCEPT ![c] = @ \cup {r}] /\ UNCHANGED <<running, alive>>
\* ... and the loop of the connection starts the task
Start(c, r) == /\ alive[c] /\ r \in pending[c]
               /\ pending' = [pending EXCEPT ![c] = @ \ {r}] /\ running' = [running EXCEPT ![c] = @ \cup {r}]
               /\ UNCHANGED <<locked, waiting, alive>>
\* the service ignores the release of a room it does not hold, and does not know who holds a room
Released(S) == locked \ S
TaskEnd(c, r) == /\ r \in running[c]
                 /\ locked' = Released({r}) /\ running' = [running EXCEPT ![c] = @ \ {r}] /\ UNCHANGED <<waiting, pending, alive>>
LoopExit(c) == /\ alive[c] /\ alive' = [alive EXCEPT ![c] = FALSE] /\ waiting' = [waiting EXCEPT ![c] = {}]
               /\ locked' = Released((IF Has("CleanupReleasesRunningTasks") THEN running[c] ELSE {})
                                      \cup (IF Has("ExitForgetsPendingGrants") THEN {} ELSE pending[c]))
               /\ pending' = [pending EXCEPT ![c] = {}]
               /\ UNCHANGED running
Next == \E c \in Conn : LoopExit(c) \/ \E r \in Room : Request(c, r) \/ Grant(c, r) \/ Start(c, r) \/ TaskEnd(c, r)
Spec == Init /\ [][Next]_vars
\* C20: a room is being synchronised by at most one connection at a time, and at most MaxLock rooms at once
ExclusiveSync == \A r \in Room : Cardinality({c \in Conn : r \in running[c]}) <= 1
BoundedSync == Cardinality(UNION {running[c] : c \in Conn}) <= MaxLock
\* what the service believes is what happens
HeldMeansRunning == \A r \in Room : (\E c \in Conn : r \in running[c]) => r \in locked
\* never lost: a room the service holds is held for a running task or for a grant that a live connection will take in charge
NoLostLock == \A r \in locked : \E c \in Conn : r \in running[c] \/ (alive[c] /\ r \in pending[c])
=============================================================================
