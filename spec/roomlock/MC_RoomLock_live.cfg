\* liveness under fairness of releases, for finitely many requests
CONSTANTS
  Conn = {c1, c2}
  Room = {r1, r2}
  MaxLock = 1
  NoConn = NoConn
  MaxReq = 3
SPECIFICATION FairSpec
PROPERTIES EventuallyGranted
CHECK_DEADLOCK FALSE
