------------------------------ MODULE RoomLock ------------------------------
(* Implementation-shaped specification of                                   *)
(* src/synchronisation/room_locking_service.rs (C20).                       *)
(* One action per message handled by the service actor; acquire_lock is     *)
(* transcribed statement by statement (rotation of the peer queue, rooms    *)
(* pushed back to the front when busy, rooms dropped when the receiver is   *)
(* gone).                                                                   *)
EXTENDS Naturals, Sequences, FiniteSets, TLC
CONSTANTS Conn, Room, MaxLock, NoConn,
          MaxReq   \* bound on the number of requests (only used by the liveness configuration; 0 = unbounded)
VARIABLES map,     \* peer_lock_request : Conn -> Seq(Room) | NoReq
          queue,   \* peer_queue : Seq(Conn); index 1 = front, Len = back
          locked,  \* locked : SUBSET Room
          avail,   \* avalaible
          alive,   \* Conn -> BOOLEAN : receiver of the reply channel not dropped
          given,   \* ghost : Room -> Conn \cup {NoConn} who received the grant
          nreq     \* ghost : number of requests so far (stays 0 when MaxReq = 0)
svars == <<map, queue, locked, avail, alive, given>>
vars == <<svars, nreq>>
NoReq == <<"none">>

PushFront(s, e) == <<e>> \o s
PopBack(s) == SubSeq(s, 1, Len(s) - 1)
Back(s) == s[Len(s)]
Range(s) == {s[i] : i \in 1..Len(s)}

\* one pass over the rooms of a request (lines 88-98): <<rooms', granted room | "none">>
RECURSIVE TryRooms(_, _, _, _)
TryRooms(rooms, n, lk, ok) ==
  IF n = 0 \/ rooms = <<>> THEN <<rooms, "none">>
  ELSE LET r == Back(rooms)
           rest == PopBack(rooms)
       IN IF r \in lk THEN TryRooms(PushFront(rest, r), n - 1, lk, ok)
          ELSE IF ok THEN <<rest, r>>
          ELSE TryRooms(rest, n - 1, lk, ok)      \* send failed: the room is dropped

\* acquire_lock (lines 78-110) on a record of the service state
RECURSIVE AcqLoop(_, _)
AcqLoop(st, n) ==
  IF n = 0 \/ st.queue = <<>> THEN st
  ELSE LET p == Back(st.queue)
           q1 == PopBack(st.queue)
       IN IF st.map[p] = NoReq THEN AcqLoop([st EXCEPT !.queue = q1], n - 1)
          ELSE LET res == TryRooms(st.map[p], Len(st.map[p]), st.locked, st.alive[p])
                   rooms2 == res[1]
                   g == res[2]
                   st1 == [st EXCEPT !.queue = IF rooms2 # <<>> THEN PushFront(q1, p) ELSE q1,
                                     !.map[p] = IF rooms2 # <<>> THEN rooms2 ELSE NoReq]
               IN IF g = "none" THEN AcqLoop(st1, n - 1)
                  ELSE [st1 EXCEPT !.locked = @ \cup {g}, !.avail = @ - 1, !.given[g] = p]

Acquire(st) == AcqLoop(st, Len(st.queue))
RECURSIVE Times(_, _)
Times(st, k) == IF k = 0 THEN st ELSE Times(Acquire(st), k - 1)

St == [map |-> map, queue |-> queue, locked |-> locked, avail |-> avail, alive |-> alive, given |-> given]
Install(st) == /\ map' = st.map /\ queue' = st.queue /\ locked' = st.locked
               /\ avail' = st.avail /\ alive' = st.alive /\ given' = st.given

InitSt == [map |-> [c \in Conn |-> NoReq], queue |-> <<>>, locked |-> {}, avail |-> MaxLock,
           alive |-> [c \in Conn |-> TRUE], given |-> [r \in Room |-> NoConn]]
Init == /\ map = InitSt.map /\ queue = InitSt.queue /\ locked = InitSt.locked /\ avail = InitSt.avail
        /\ alive = InitSt.alive /\ given = InitSt.given /\ nreq = 0

\* rooms: a sequence without duplicates (the callers build it from a set)
RequestLock(c, rooms) ==
  /\ alive[c]
  /\ IF MaxReq = 0 THEN UNCHANGED nreq ELSE nreq < MaxReq /\ nreq' = nreq + 1
  /\ LET st0 == IF map[c] # NoReq
                THEN [St EXCEPT !.map[c] = @ \o SelectSeq(rooms, LAMBDA r : r \notin Range(map[c]))]
                ELSE [St EXCEPT !.map[c] = rooms, !.queue = PushFront(queue, c)]
     IN Install(Times(st0, avail))

Unlock(r) ==
  IF r \in locked
  THEN Install(Acquire([St EXCEPT !.locked = @ \ {r}, !.avail = @ + 1, !.given[r] = NoConn])) /\ UNCHANGED nreq
  ELSE UNCHANGED vars

\* the connection ends: its receiver is dropped (nothing is sent to the service)
Drop(c) == alive[c] /\ alive' = [alive EXCEPT ![c] = FALSE] /\ UNCHANGED <<map, queue, locked, avail, given, nreq>>

Seq1(S) == {<<a>> : a \in S}
Seq2(S) == {<<a, b>> : a, b \in S} \ {<<a, a>> : a \in S}
Seq3(S) == {s \in {<<a, b, c>> : a, b, c \in S} : s[1] # s[2] /\ s[1] # s[3] /\ s[2] # s[3]}
RoomSeqs == Seq1(Room) \cup Seq2(Room) \cup Seq3(Room)

Next == \/ \E c \in Conn, rs \in RoomSeqs : RequestLock(c, rs)
        \/ \E r \in Room : Unlock(r)
        \/ \E c \in Conn : Drop(c)

\* release of a room that is held, as promised by the property's premise
Release(r) == r \in locked /\ Unlock(r)

Spec == Init /\ [][Next]_vars
FairSpec == Spec /\ \A r \in Room : WF_vars(Release(r))

\* ---- refinement of the property-level specification ----
Owed == [c \in Conn |-> IF alive[c] /\ map[c] # NoReq THEN Range(map[c]) ELSE {}]
Abs == INSTANCE RoomLockAbs WITH owed <- Owed, holder <- given, live <- alive
Refines == Abs!ASpec

\* ---- invariants ----
TypeOK == /\ locked \subseteq Room /\ avail \in 0..MaxLock
          /\ \A c \in Conn : map[c] = NoReq \/ (map[c] # <<>> /\ Range(map[c]) \subseteq Room)
Bounded == Cardinality(locked) + avail = MaxLock
LockedIsGiven == locked = {r \in Room : given[r] # NoConn}
QueueConsistent == /\ \A c \in Conn : map[c] # NoReq <=> c \in Range(queue)
                   /\ \A i, j \in 1..Len(queue) : queue[i] = queue[j] => i = j
NoDuplicateRooms == \A c \in Conn : map[c] # NoReq => \A i, j \in 1..Len(map[c]) : map[c][i] = map[c][j] => i = j
NothingGrantableLeft == Abs!NothingGrantableLeft

\* ---- liveness: every requested room is eventually granted while the connection listens ----
EventuallyGranted == \A c \in Conn, r \in Room :
    (alive[c] /\ r \in Owed[c]) ~> (~alive[c] \/ given[r] = c)
=============================================================================
