CONSTANTS
  Conn = {"c1", "c2", "c3"}
  Room = {"r1", "r2", "r3"}
  NoConn = "none"
  MaxLock <- TraceMaxLock
SPECIFICATION TSpec
INVARIANTS Bounded NothingGrantableLeft
POSTCONDITION Reached
CHECK_DEADLOCK FALSE
