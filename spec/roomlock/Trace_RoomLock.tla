--------------------------- MODULE Trace_RoomLock ---------------------------
(* Strict layer: validates traces of the real service against the           *)
(* transcription RoomLock itself (exact grants, hence exact rotation        *)
(* order).  A rejection here with the property-level layer accepting is     *)
(* "drift": the code no longer follows the transcription, but does not      *)
(* break C20.  Informative only.                                            *)
EXTENDS RoomLock, Json, IOUtils
Rec == ndJsonDeserialize(IOEnv.TRACE)
VARIABLES l
tvars == <<vars, l>>
ToSet(s) == {s[i] : i \in DOMAIN s}
Ev == Rec[l]
IsEvent(e) == l <= Len(Rec) /\ Ev.ev = e /\ l' = l + 1
\* grants implied by a step of the transcription
NewGrants == {[c |-> given'[r], r |-> r] : r \in {x \in Room : given'[x] # NoConn /\ (given[x] # given'[x] \/ (Ev.ev = "unlock" /\ Ev.r = x))}}
Logged == {[c |-> g.c, r |-> g.r] : g \in ToSet(Ev.grants)}
TBegin == IsEvent("begin") /\ Install(InitSt) /\ UNCHANGED nreq
TEnd == IsEvent("end") /\ UNCHANGED vars
TReq == IsEvent("req") /\ RequestLock(Ev.c, Ev.rooms) /\ NewGrants = Logged
TUnlock == IsEvent("unlock") /\ Unlock(Ev.r) /\ (IF Ev.r \in locked THEN NewGrants = Logged ELSE Logged = {})
TDrop == IsEvent("drop") /\ Drop(Ev.c) /\ Logged = {}
TInit == Init /\ l = 1
TNext == TBegin \/ TEnd \/ TReq \/ TUnlock \/ TDrop
TSpec == TInit /\ [][TNext]_tvars
Reached == PrintT(<<"REACHED", TLCGet("stats").diameter - 1, Len(Rec)>>)
=============================================================================
