------------------------- MODULE Trace_RoomLockAbs -------------------------
(* Validates traces recorded from the real RoomLockService against the      *)
(* property-level specification RoomLockAbs: every message and the grants   *)
(* observed after it must be a step of ASpec.  This is the deciding layer   *)
(* for C20: a rejected event is a grant the property forbids, or a grant    *)
(* the property requires that did not happen.                               *)
EXTENDS RoomLockAbs, Sequences, Json, IOUtils, TLC
Rec == ndJsonDeserialize(IOEnv.TRACE)
VARIABLES l
tvars == <<avars, l>>

ToSet(s) == {s[i] : i \in DOMAIN s}
Ev == Rec[l]
IsEvent(e) == l <= Len(Rec) /\ Ev.ev = e /\ l' = l + 1
Grants(e) == {[c |-> g.c, r |-> g.r] : g \in ToSet(e.grants)}
\* a connection must not get the same room twice in one step, which a set of grants would hide
NoDupGrants(e) == Cardinality(Grants(e)) = Len(e.grants)

TBegin == IsEvent("begin") /\ Install(InitSt)
TEnd == IsEvent("end") /\ UNCHANGED avars
TReq == IsEvent("req") /\ NoDupGrants(Ev) /\ ARequest(Ev.c, ToSet(Ev.rooms), Grants(Ev))
TUnlock == IsEvent("unlock") /\ NoDupGrants(Ev) /\ AUnlock(Ev.r, Grants(Ev))
TDrop == IsEvent("drop") /\ Ev.grants = <<>> /\ ADrop(Ev.c)

TInit == AInit /\ l = 1
TNext == TBegin \/ TEnd \/ TReq \/ TUnlock \/ TDrop
TSpec == TInit /\ [][TNext]_tvars

Reached == PrintT(<<"REACHED", TLCGet("stats").diameter - 1, Len(Rec)>>)
=============================================================================
