---------------------------- MODULE Gen_RoomLock ----------------------------
(* Scenario generator for C20: explores RoomLock with a history variable    *)
(* that is hidden from the fingerprint by a VIEW, so each distinct pair     *)
(* (service state, last message) is reached once, and prints the message    *)
(* sequence that reached it.  Replaying all printed sequences on the real   *)
(* service exercises every transition of the bounded model.                 *)
EXTENDS RoomLock, Json
CONSTANT MaxLen
VARIABLES hist, last
gvars == <<vars, hist, last>>

GInit == Init /\ hist = <<>> /\ last = [op |-> "init"]
Rec(m) == hist' = Append(hist, m) /\ last' = m
GNext == \/ \E c \in Conn, rs \in RoomSeqs :
              RequestLock(c, rs) /\ Rec([op |-> "req", c |-> c, rooms |-> rs])
         \/ \E r \in Room : Unlock(r) /\ Rec([op |-> "unlock", r |-> r])
         \/ \E c \in Conn : Drop(c) /\ Rec([op |-> "drop", c |-> c])
GSpec == GInit /\ [][GNext]_gvars
GView == <<svars, last>>
Bound == Len(hist) <= MaxLen
Emit == hist = <<>> \/ PrintT(<<"SCN", ToJson([h |-> hist, k |-> ToString(GView)])>>)
=============================================================================
