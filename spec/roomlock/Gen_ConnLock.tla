---------------------------- MODULE Gen_ConnLock ----------------------------
(* Scenario generator for the connection level of C20: behaviours of        *)
(* ConnLock.tla as the code is, one scenario per reachable state.           *)
EXTENDS ConnLock, Json
CONSTANTS MaxLen
VARIABLE hist
H(m) == hist' = Append(hist, m)
GInit == Init /\ hist = <<>>
GNext == \E c \in Conn :
            \/ LoopExit(c) /\ H([op |-> "exit", c |-> c])
            \/ \E r \in Room : \/ Request(c, r) /\ H([op |-> "req", c |-> c, r |-> r])
                               \/ Grant(c, r) /\ H([op |-> "grant", c |-> c, r |-> r])
                               \/ Start(c, r) /\ H([op |-> "start", c |-> c, r |-> r])
                               \/ TaskEnd(c, r) /\ H([op |-> "done", c |-> c, r |-> r])
GSpec == GInit /\ [][GNext]_<<vars, hist>>
GView == vars
Bound == Len(hist) <= MaxLen
Emit == hist = <<>> \/ PrintT(<<"SCN", ToJson([h |-> hist, k |-> ToString(vars)])>>)
=============================================================================
