\* expected to FAIL: with unboundedly many requests a connection that keeps re-requesting a hot room
\* starves its other rooms (known finding C20/hot-room-starvation)
CONSTANTS
  Conn = {c1}
  Room = {r1, r2}
  MaxLock = 1
  NoConn = NoConn
  MaxReq = 0
SPECIFICATION FairSpec
PROPERTIES EventuallyGranted
CHECK_DEADLOCK FALSE
