---- MODULE ConnLock_TTrace_1790200897 ----
EXTENDS Sequences, TLCExt, Toolbox, Naturals, TLC, ConnLock

_expression ==
    LET ConnLock_TEExpression == INSTANCE ConnLock_TEExpression
    IN ConnLock_TEExpression!expression
----

_trace ==
    LET ConnLock_TETrace == INSTANCE ConnLock_TETrace
    IN ConnLock_TETrace!trace
----

_inv ==
    ~(
        TLCGet("level") = Len(_TETrace)
        /\
        running = ([c1 |-> {}, c2 |-> {}, c3 |-> {}])
        /\
        alive = ([c1 |-> FALSE, c2 |-> TRUE, c3 |-> TRUE])
        /\
        waiting = ([c1 |-> {}, c2 |-> {}, c3 |-> {}])
        /\
        pending = ([c1 |-> {}, c2 |-> {}, c3 |-> {}])
        /\
        locked = ({"r1"})
    )
----

_init ==
    /\ pending = _TETrace[1].pending
    /\ alive = _TETrace[1].alive
    /\ waiting = _TETrace[1].waiting
    /\ running = _TETrace[1].running
    /\ locked = _TETrace[1].locked
----

_next ==
    /\ \E i,j \in DOMAIN _TETrace:
        /\ \/ /\ j = i + 1
              /\ i = TLCGet("level")
        /\ pending  = _TETrace[i].pending
        /\ pending' = _TETrace[j].pending
        /\ alive  = _TETrace[i].alive
        /\ alive' = _TETrace[j].alive
        /\ waiting  = _TETrace[i].waiting
        /\ waiting' = _TETrace[j].waiting
        /\ running  = _TETrace[i].running
        /\ running' = _TETrace[j].running
        /\ locked  = _TETrace[i].locked
        /\ locked' = _TETrace[j].locked

\* Uncomment the ASSUME below to write the states of the error trace
\* to the given file in Json format. Note that you can pass any tuple
\* to `JsonSerialize`. For example, a sub-sequence of _TETrace.
    \* ASSUME
    \*     LET J == INSTANCE Json
    \*         IN J!JsonSerialize("ConnLock_TTrace_1790200897.json", _TETrace)

=============================================================================

 Note that you can extract this module `ConnLock_TEExpression`
  to a dedicated file to reuse `expression` (the module in the 
  dedicated `ConnLock_TEExpression.tla` file takes precedence 
  over the module `ConnLock_TEExpression` below).

---- MODULE ConnLock_TEExpression ----
EXTENDS Sequences, TLCExt, Toolbox, Naturals, TLC, ConnLock

expression == 
    [
        \* To hide variables of the `ConnLock` spec from the error trace,
        \* remove the variables below.  The trace will be written in the order
        \* of the fields of this record.
        pending |-> pending
        ,alive |-> alive
        ,waiting |-> waiting
        ,running |-> running
        ,locked |-> locked
        
        \* Put additional constant-, state-, and action-level expressions here:
        \* ,_stateNumber |-> _TEPosition
        \* ,_pendingUnchanged |-> pending = pending'
        
        \* Format the `pending` variable as Json value.
        \* ,_pendingJson |->
        \*     LET J == INSTANCE Json
        \*     IN J!ToJson(pending)
        
        \* Lastly, you may build expressions over arbitrary sets of states by
        \* leveraging the _TETrace operator.  For example, this is how to
        \* count the number of times a spec variable changed up to the current
        \* state in the trace.
        \* ,_pendingModCount |->
        \*     LET F[s \in DOMAIN _TETrace] ==
        \*         IF s = 1 THEN 0
        \*         ELSE IF _TETrace[s].pending # _TETrace[s-1].pending
        \*             THEN 1 + F[s-1] ELSE F[s-1]
        \*     IN F[_TEPosition - 1]
    ]

=============================================================================



Parsing and semantic processing can take forever if the trace below is long.
 In this case, it is advised to uncomment the module below to deserialize the
 trace from a generated binary file.

\*
\*---- MODULE ConnLock_TETrace ----
\*EXTENDS IOUtils, TLC, ConnLock
\*
\*trace == IODeserialize("ConnLock_TTrace_1790200897.bin", TRUE)
\*
\*=============================================================================
\*

---- MODULE ConnLock_TETrace ----
EXTENDS TLC, ConnLock

trace == 
    <<
    ([running |-> [c1 |-> {}, c2 |-> {}, c3 |-> {}],alive |-> [c1 |-> TRUE, c2 |-> TRUE, c3 |-> TRUE],waiting |-> [c1 |-> {}, c2 |-> {}, c3 |-> {}],pending |-> [c1 |-> {}, c2 |-> {}, c3 |-> {}],locked |-> {}]),
    ([running |-> [c1 |-> {}, c2 |-> {}, c3 |-> {}],alive |-> [c1 |-> TRUE, c2 |-> TRUE, c3 |-> TRUE],waiting |-> [c1 |-> {"r1"}, c2 |-> {}, c3 |-> {}],pending |-> [c1 |-> {}, c2 |-> {}, c3 |-> {}],locked |-> {}]),
    ([running |-> [c1 |-> {}, c2 |-> {}, c3 |-> {}],alive |-> [c1 |-> TRUE, c2 |-> TRUE, c3 |-> TRUE],waiting |-> [c1 |-> {}, c2 |-> {}, c3 |-> {}],pending |-> [c1 |-> {"r1"}, c2 |-> {}, c3 |-> {}],locked |-> {"r1"}]),
    ([running |-> [c1 |-> {}, c2 |-> {}, c3 |-> {}],alive |-> [c1 |-> FALSE, c2 |-> TRUE, c3 |-> TRUE],waiting |-> [c1 |-> {}, c2 |-> {}, c3 |-> {}],pending |-> [c1 |-> {}, c2 |-> {}, c3 |-> {}],locked |-> {"r1"}])
    >>
----


=============================================================================

---- CONFIG ConnLock_TTrace_1790200897 ----
CONSTANTS
    Conn = { "c1" , "c2" , "c3" }
    Room = { "r1" , "r2" }
    MaxLock = 1
    DEV = { "ExitForgetsPendingGrants" }

INVARIANT
    _inv

CHECK_DEADLOCK
    \* CHECK_DEADLOCK off because of PROPERTY or INVARIANT above.
    FALSE

INIT
    _init

NEXT
    _next

CONSTANT
    _TETrace <- _trace

ALIAS
    _expression
=============================================================================
\* Generated on Wed Sep 23 22:01:39 UTC 2026