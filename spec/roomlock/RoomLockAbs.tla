---------------------------- MODULE RoomLockAbs ----------------------------
(* Property-level specification of the room synchronisation locks (C20).    *)
(* It says what any correct lock service may do, not how: a message of the  *)
(* environment (request, release, receiver drop) is followed atomically by  *)
(* a set of grants; every grant goes to a live connection that asked for    *)
(* the room, for a room nobody holds, within the limit; and when the        *)
(* service goes back to waiting nothing more could have been granted (the   *)
(* finite-trace form of "every requested room is eventually granted as long *)
(* as granted rooms are released").                                         *)
EXTENDS Naturals, FiniteSets
CONSTANTS Conn, Room, MaxLock, NoConn
VARIABLES owed,    \* Conn -> SUBSET Room : requested and not yet granted
          holder,  \* Room -> Conn \cup {NoConn} : who was granted the room last, until released
          live     \* Conn -> BOOLEAN : the connection still listens for grants
avars == <<owed, holder, live>>

St == [owed |-> owed, holder |-> holder, live |-> live]
Held(st) == {r \in Room : st.holder[r] # NoConn}

Grant == [c : Conn, r : Room]

GrantSetOK(st, G) ==
    /\ \A g \in G : st.live[g.c] /\ g.r \in st.owed[g.c] /\ st.holder[g.r] = NoConn
    /\ \A g, h \in G : g.r = h.r => g = h
    /\ Cardinality(Held(st)) + Cardinality(G) <= MaxLock

AfterGrants(st, G) ==
    [st EXCEPT !.owed   = [c \in Conn |-> st.owed[c] \ {g.r : g \in {h \in G : h.c = c}}],
               !.holder = [r \in Room |-> IF \E g \in G : g.r = r
                                          THEN (CHOOSE g \in G : g.r = r).c ELSE st.holder[r]]]

\* nothing else could be granted
Quiescent(st) ==
    \/ Cardinality(Held(st)) >= MaxLock
    \/ \A c \in Conn : st.live[c] => \A r \in st.owed[c] : st.holder[r] # NoConn

Install(st) == owed' = st.owed /\ holder' = st.holder /\ live' = st.live

Finish(st, G) == GrantSetOK(st, G) /\ Quiescent(AfterGrants(st, G)) /\ Install(AfterGrants(st, G))

InitSt == [owed |-> [c \in Conn |-> {}], holder |-> [r \in Room |-> NoConn], live |-> [c \in Conn |-> TRUE]]
AInit == owed = InitSt.owed /\ holder = InitSt.holder /\ live = InitSt.live

ARequest(c, rooms, G) ==
    /\ live[c]
    /\ Finish([St EXCEPT !.owed[c] = @ \cup rooms], G)

AUnlock(r, G) ==
    Finish([St EXCEPT !.holder[r] = NoConn], G)

ADrop(c) ==
    /\ live[c]
    /\ Install([St EXCEPT !.live[c] = FALSE, !.owed[c] = {}])

ANext == \/ \E c \in Conn, rooms \in SUBSET Room, G \in SUBSET Grant : ARequest(c, rooms, G)
         \/ \E r \in Room, G \in SUBSET Grant : AUnlock(r, G)
         \/ \E c \in Conn : ADrop(c)

ASpec == AInit /\ [][ANext]_avars

\* ---- the properties of C20 on this level ----
Exclusive == \A r \in Room : holder[r] # NoConn => holder[r] \in Conn   \* one holder per room by typing
Bounded == Cardinality(Held(St)) <= MaxLock
NothingGrantableLeft == Quiescent(St)
=============================================================================
