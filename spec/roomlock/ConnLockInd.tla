----------------------------- MODULE ConnLockInd -----------------------------
(* The design of ConnLock.tla (DEV = {}) with Apalache type annotations and *)
(* an inductive invariant: ExclusiveSync, BoundedSync and NoLostLock hold   *)
(* in every reachable state of behaviours of ANY length (for the constants  *)
(* of ConstInit), not only up to the depth TLC explores.                    *)
(*   apalache-mc check --cinit=ConstInit --init=Init --inv=IndInv --length=0 ConnLockInd.tla      *)
(*   apalache-mc check --cinit=ConstInit --init=IndInit --inv=IndInv --length=1 ConnLockInd.tla   *)
(*   apalache-mc check --cinit=ConstInit --init=IndInit --inv=Safety --length=0 ConnLockInd.tla   *)
EXTENDS Integers, FiniteSets
CONSTANTS
    \* @type: Set(Str);
    Conn,
    \* @type: Set(Str);
    Room,
    \* @type: Int;
    MaxLock
VARIABLES
    \* @type: Set(Str);
    locked,
    \* @type: Str -> Set(Str);
    waiting,
    \* @type: Str -> Set(Str);
    pending,
    \* @type: Str -> Set(Str);
    running,
    \* @type: Str -> Bool;
    alive

ConstInit == Conn = {"c1", "c2", "c3"} /\ Room = {"r1", "r2", "r3"} /\ MaxLock \in 1..3

Init == locked = {} /\ waiting = [c \in Conn |-> {}] /\ pending = [c \in Conn |-> {}] /\ running = [c \in Conn |-> {}] /\ alive = [c \in Conn |-> TRUE]
Request(c, r) == /\ alive[c] /\ r \notin waiting[c] \union pending[c] \union running[c]
                 /\ waiting' = [waiting EXCEPT ![c] = @ \union {r}] /\ UNCHANGED <<locked, pending, running, alive>>
Grant(c, r) == /\ alive[c] /\ r \in waiting[c] /\ r \notin locked /\ Cardinality(locked) < MaxLock
               /\ locked' = locked \union {r} /\ waiting' = [waiting EXCEPT ![c] = @ \ {r}]
               /\ pending' = [pending EXCEPT ![c] = @ \union {r}] /\ UNCHANGED <<running, alive>>
Start(c, r) == /\ alive[c] /\ r \in pending[c]
               /\ pending' = [pending EXCEPT ![c] = @ \ {r}] /\ running' = [running EXCEPT ![c] = @ \union {r}]
               /\ UNCHANGED <<locked, waiting, alive>>
TaskEnd(c, r) == /\ r \in running[c]
                 /\ locked' = locked \ {r} /\ running' = [running EXCEPT ![c] = @ \ {r}] /\ UNCHANGED <<waiting, pending, alive>>
LoopExit(c) == /\ alive[c] /\ alive' = [alive EXCEPT ![c] = FALSE] /\ waiting' = [waiting EXCEPT ![c] = {}]
               /\ locked' = locked \ pending[c] /\ pending' = [pending EXCEPT ![c] = {}]
               /\ UNCHANGED running
Next == \E c \in Conn : LoopExit(c) \/ \E r \in Room : Request(c, r) \/ Grant(c, r) \/ Start(c, r) \/ TaskEnd(c, r)

TypeOK == /\ locked \in SUBSET Room
          /\ waiting \in [Conn -> SUBSET Room] /\ pending \in [Conn -> SUBSET Room] /\ running \in [Conn -> SUBSET Room]
          /\ alive \in [Conn -> BOOLEAN]
Holders(r) == {c \in Conn : r \in pending[c] \union running[c]}
ExclusiveSync == \A r \in Room : Cardinality({c \in Conn : r \in running[c]}) <= 1
BoundedSync == Cardinality(UNION {running[c] : c \in Conn}) <= MaxLock
NoLostLock == \A r \in locked : \E c \in Conn : r \in running[c] \/ (alive[c] /\ r \in pending[c])
Safety == ExclusiveSync /\ BoundedSync /\ NoLostLock
\* every room the service holds has exactly one holder, and only held rooms have one; a grant waits only in the channel of a live connection
IndInv == /\ TypeOK
          /\ Cardinality(locked) <= MaxLock
          /\ \A r \in Room : (r \in locked <=> Holders(r) # {}) /\ Cardinality(Holders(r)) <= 1
          /\ \A c \in Conn : (~alive[c] => pending[c] = {} /\ waiting[c] = {}) /\ pending[c] \intersect running[c] = {}
IndInit == IndInv
=============================================================================
