--------------------------- MODULE Trace_ConnLock ---------------------------
(* C20, connection level, on the real code (dv connlock): the real lock     *)
(* service, real synchronisation tasks (process_acquired_room; the harness  *)
(* is the remote side and keeps a task running by not answering its first   *)
(* query) and the function a connection calls when its loop ends.  After    *)
(* every step the harness logs, per connection, the rooms whose task is     *)
(* running (the connection's acquired_lock set).  Monitors: the invariants  *)
(* ExclusiveSync and BoundedSync of ConnLock.tla on the observation.        *)
EXTENDS Naturals, FiniteSets, Sequences, Json, IOUtils, TLC
CONSTANTS KNOWN
Rec == ndJsonDeserialize(IOEnv.TRACE)
VARIABLES l, bad, devs, sid, max,
          orphan    \* rooms whose task was running when the loop of its connection ended
tvars == <<l, bad, devs, sid, max, orphan>>
ToSet(s) == {s[i] : i \in DOMAIN s}
Ev == Rec[l]
Conns == DOMAIN Ev.running
RunningOf(c) == ToSet(Ev.running[c])
AllRooms == UNION {RunningOf(c) : c \in Conns}
Shared == {r \in AllRooms : Cardinality({c \in Conns : r \in RunningOf(c)}) > 1}
Problems == {<<"two connections synchronise the room", r>> : r \in Shared}
            \cup (IF Cardinality(AllRooms) > max THEN {<<"more rooms than the limit are synchronised", "all">>} ELSE {})
            \* after every connection has ended and every task is over, a new connection is granted any room at once: no lock was lost
            \cup (IF Ev.ev = "start" /\ Ev.c = "probe" /\ Ev.note # "ok" THEN {<<"a free room is not granted: its lock was lost", "probe">>} ELSE {})
\* the deviation of ConnLock.tla: the end of a connection released a room whose task was still running
Attribute(o) == IF o[2] = "probe" THEN "none" ELSE IF orphan # {} THEN "CleanupReleasesRunningTasks" ELSE "none"
Step == /\ l <= Len(Rec) /\ Ev.ev \in {"req", "start", "done", "exit", "drain"} /\ l' = l + 1
        /\ LET named == {<<o, Attribute(o)>> : o \in Problems}
           IN /\ bad' = bad \cup {<<"UNEXPLAINED", x[1]>> : x \in {y \in named : y[2] \notin KNOWN}}
              /\ devs' = devs \cup {x[2] : x \in {y \in named : y[2] \in KNOWN}}
        /\ orphan' = IF Ev.ev = "drain" THEN {}
                     ELSE IF Ev.ev = "exit" /\ Ev.c \in Conns THEN orphan \cup RunningOf(Ev.c)
                     ELSE IF Ev.ev = "done" /\ Ev.note = "ok" THEN orphan \ (IF \E c \in Conns : Ev.r \in RunningOf(c) THEN {} ELSE {Ev.r})
                     ELSE orphan
        /\ UNCHANGED <<sid, max>>
Begin == /\ l <= Len(Rec) /\ Ev.ev = "begin" /\ l' = l + 1 /\ sid' = Ev.sid /\ max' = Ev.max /\ bad' = {} /\ devs' = {} /\ orphan' = {}
End == /\ l <= Len(Rec) /\ Ev.ev = "end" /\ l' = l + 1 /\ PrintT(<<"DEVS", sid, devs>>) /\ UNCHANGED <<bad, devs, sid, max, orphan>>
TInit == l = 1 /\ bad = {} /\ devs = {} /\ sid = 0 /\ max = 0 /\ orphan = {}
TNext == Begin \/ Step \/ End
TSpec == TInit /\ [][TNext]_tvars
Monitors == \A o \in bad : o[1] # "UNEXPLAINED"
Reached == PrintT(<<"REACHED", TLCGet("stats").diameter - 1, Len(Rec)>>)
=============================================================================
