---- MODULE MC_Pipeline ----
EXTENDS Gen_Pipeline
F2 == ("m1" :> "name") @@ ("m2" :> "tag")
V2 == ("m1" :> "n1") @@ ("m2" :> "g2")
F2s == ("m1" :> "name") @@ ("m2" :> "name")
F3 == ("m1" :> "name") @@ ("m2" :> "tag") @@ ("m3" :> "name")
V3 == ("m1" :> "n1") @@ ("m2" :> "g2") @@ ("m3" :> "n3")
F2n == ("m1" :> "name") @@ ("m2" :> "none")
F3n == ("m1" :> "name") @@ ("m2" :> "none") @@ ("m3" :> "tag")
====
