----------------------------- MODULE Gen_Pipeline -----------------------------
(* every interleaving of the phases of the mutations (as the reader pool,   *)
(* the actor queue and the writer allow them), printed once complete        *)
EXTENDS Pipeline, Json
VARIABLE hist
gvars == <<vars, hist>>
GInit == Init /\ hist = <<>>
GNext == \E m \in Mut : \/ (Read(m) /\ hist' = Append(hist, [ph |-> "R", m |-> m]))
                         \/ (Validate(m) /\ hist' = Append(hist, [ph |-> "V", m |-> m]))
                         \/ (Write(m) /\ hist' = Append(hist, [ph |-> "W", m |-> m]))
GSpec == GInit /\ [][GNext]_gvars
Emit == ~AllDone \/ PrintT(<<"SCN", ToJson(hist)>>)
=============================================================================
