------------------------------ MODULE Pipeline ------------------------------
(* The mutation pipeline (C16): a mutation is read on a reader thread       *)
(* (the stored row is loaded and merged with the new field values:          *)
(* mutation_query.rs:131-394), validated and signed by the authorisation    *)
(* actor, then written whole by the batch writer (node.rs:322-372).         *)
(* Nothing serialises two mutations of the same row, so a mutation can be   *)
(* read before an earlier one has been written (deviation                   *)
(* StaleSnapshotWrittenBack); the design reads a row only when no earlier   *)
(* mutation of it is still in flight.                                       *)
EXTENDS Naturals, Sequences, FiniteSets, TLC
CONSTANTS Mut,          \* set of mutations
          Field, FieldOf, ValOf,   \* each mutation assigns one field of the row: FieldOf[m], ValOf[m]; FieldOf[m] = "none": the
                                   \* mutation changes nothing (it clears a reference that is already empty) and writes nothing
          DEV
VARIABLES row,    \* Field -> value stored
          pc,     \* Mut -> "new" | "read" | "validated" | "written"
          snap    \* Mut -> the merged row computed by the read phase
vars == <<row, pc, snap>>
Has(d) == d \in DEV
Init == row = [f \in Field |-> "v0"] /\ pc = [m \in Mut |-> "new"] /\ snap = [m \in Mut |-> [f \in Field |-> "v0"]]
InFlight(m) == pc[m] \in {"read", "validated"}
Read(m) == /\ pc[m] = "new"
           /\ (Has("StaleSnapshotWrittenBack") \/ ~\E n \in Mut : InFlight(n))
           /\ snap' = [snap EXCEPT ![m] = IF FieldOf[m] = "none" THEN row ELSE [row EXCEPT ![FieldOf[m]] = ValOf[m]]]
           /\ pc' = [pc EXCEPT ![m] = "read"] /\ UNCHANGED row
Validate(m) == pc[m] = "read" /\ pc' = [pc EXCEPT ![m] = "validated"] /\ UNCHANGED <<row, snap>>
\* (deviation NoopWritesSnapshot: a mutation that changes nothing writes the row it read all the same)
Write(m) == /\ pc[m] = "validated"
            /\ row' = IF FieldOf[m] = "none" /\ ~Has("NoopWritesSnapshot") THEN row ELSE snap[m]
            /\ pc' = [pc EXCEPT ![m] = "written"] /\ UNCHANGED snap
Next == \E m \in Mut : Read(m) \/ Validate(m) \/ Write(m)
Spec == Init /\ [][Next]_vars
AllDone == \A m \in Mut : pc[m] = "written"
\* the row after applying the mutations one after another in the order given by the sequence
RECURSIVE Serial(_, _)
Serial(r, s) == IF s = <<>> THEN r
                ELSE Serial(IF FieldOf[Head(s)] = "none" THEN r ELSE [r EXCEPT ![FieldOf[Head(s)]] = ValOf[Head(s)]], Tail(s))
Perms == {s \in [1..Cardinality(Mut) -> Mut] : \A i, j \in 1..Cardinality(Mut) : i # j => s[i] # s[j]}
Serializable == AllDone => \E s \in Perms : row = Serial([f \in Field |-> "v0"], s)
=============================================================================
