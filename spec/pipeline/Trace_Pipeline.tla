---------------------------- MODULE Trace_Pipeline ----------------------------
(* C16 on runs of the real phase functions: the final row must be the       *)
(* result of applying the mutations one after another in some order.        *)
EXTENDS Naturals, FiniteSets, Sequences, Json, IOUtils, TLC
CONSTANTS KNOWN
Rec == ndJsonDeserialize(IOEnv.TRACE)
VARIABLES l, bad, devs, sid
tvars == <<l, bad, devs, sid>>
ToSet(s) == {s[i] : i \in DOMAIN s}
Ev == Rec[l]
Muts == DOMAIN Ev.muts
N == Cardinality(Muts)
Perms == {s \in [1..N -> Muts] : \A i, j \in 1..N : i # j => s[i] # s[j]}
Init0 == [name |-> "v0", tag |-> "v0"]
RECURSIVE Serial(_, _, _)
Apply(r, m) == IF Ev.muts[m].field = "none" THEN r ELSE [r EXCEPT ![Ev.muts[m].field] = Ev.muts[m].val]
Serial(r, s, i) == IF i > N THEN r ELSE Serial(Apply(r, s[i]), s, i + 1)
\* the final row the pipeline gives as it is (Pipeline.tla with the listed deviation): a mutation that assigns a field writes the row
\* it read with that field replaced; a mutation that changes nothing writes nothing
RECURSIVE AsIs(_, _, _)
AsIs(r, snaps, i) ==
    IF i > Len(Ev.order) THEN r
    ELSE LET st == Ev.order[i]
         IN IF st.ph = "R" THEN AsIs(r, [snaps EXCEPT ![st.m] = Apply(r, st.m)], i + 1)
            ELSE IF st.ph = "W" /\ Ev.muts[st.m].field # "none" THEN AsIs(snaps[st.m], snaps, i + 1)
            ELSE AsIs(r, snaps, i + 1)
AsIsFinal == AsIs(Init0, [m \in Muts |-> Init0], 1)
SerialOutcomes == {Serial(Init0, s, 1) : s \in Perms}
Pos(ph, m) == CHOOSE i \in DOMAIN Ev.order : Ev.order[i].ph = ph /\ Ev.order[i].m = m
\* a mutation was read while another one was between its read and its write
Overlap == \E m, n \in Muts : m # n /\ Pos("R", n) < Pos("R", m) /\ Pos("R", m) < Pos("W", n)
Problems == (IF Ev.problems # <<>> THEN {<<"phase-error", "x">>} ELSE {})
            \cup (IF Ev.final \notin SerialOutcomes THEN {<<"not-serializable", IF Overlap /\ Ev.final = AsIsFinal THEN "StaleSnapshotWrittenBack" ELSE "none">>} ELSE {})
Step == /\ l <= Len(Rec) /\ Ev.ev = "run" /\ l' = l + 1
        /\ bad' = bad \cup {<<"UNEXPLAINED", o[1]>> : o \in {x \in Problems : x[2] \notin KNOWN}}
        /\ devs' = devs \cup {o[2] : o \in {x \in Problems : x[2] \in KNOWN}}
        /\ UNCHANGED sid
Begin == /\ l <= Len(Rec) /\ Ev.ev = "begin" /\ l' = l + 1 /\ sid' = Ev.sid /\ bad' = {} /\ devs' = {}
End == /\ l <= Len(Rec) /\ Ev.ev = "end" /\ l' = l + 1 /\ PrintT(<<"DEVS", sid, devs>>) /\ UNCHANGED <<bad, devs, sid>>
TInit == l = 1 /\ bad = {} /\ devs = {} /\ sid = 0
TNext == Begin \/ Step \/ End
TSpec == TInit /\ [][TNext]_tvars
Monitors == \A o \in bad : o[1] # "UNEXPLAINED"
Reached == PrintT(<<"REACHED", TLCGet("stats").diameter - 1, Len(Rec)>>)
=============================================================================
