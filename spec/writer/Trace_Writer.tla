----------------------------- MODULE Trace_Writer -----------------------------
(* C13 on runs of the real writer under one injected fault: the child       *)
(* process printed an acknowledgement line for every reply it received; the *)
(* parent reopened the data folder.  For every request: all of its effects  *)
(* or none (Atomic); acknowledged ok => all present; reported failed =>     *)
(* none; the folder can be reopened, the log counts what is stored and no   *)
(* mark is left (MarksCommittedWithData + repair on restart); when the      *)
(* fault only made a statement fail the instance keeps answering            *)
(* (WriterStaysUsable).                                                     *)
EXTENDS Naturals, FiniteSets, Sequences, Json, IOUtils, TLC
CONSTANTS KNOWN
Rec == ndJsonDeserialize(IOEnv.TRACE)
VARIABLES l, bad, devs, sid
tvars == <<l, bad, devs, sid>>
ToSet(s) == {s[i] : i \in DOMAIN s}
Ev == Rec[l]
S == Ev.after.store
Texts == {n.text : n \in ToSet(S.nodes)}
Count(seq, e, d) == Cardinality({i \in DOMAIN seq : seq[i].ent = e /\ seq[i].day = d})
\* effects of a request, as a set of booleans over the reopened store (day 1 = the day of the workload)
Effects(r) ==
    CASE r.req \in {"create2", "ingest2"} -> {r.t1 \in Texts, r.t2 \in Texts}
      [] r.req = "update" -> {r.text \in Texts, r.row \notin Texts}
      [] r.req \in {"delete", "ingestdel"} -> {r.row \notin Texts, Count(S.ntombs, "A", 1) >= 1}
      [] r.req = "unref" -> {S.edges = <<>>, Len(S.etombs) = 1}
      [] OTHER -> {}
AckOf(r) == LET as == {a \in ToSet(Ev.acks) : a.n = r.n} IN IF as = {} THEN "none" ELSE (CHOOSE a \in as : TRUE).res
Days == {0, 1}
LogN(e, d) == LET g == {x \in ToSet(S.log) : x.ent = e /\ x.day = d} IN IF g = {} THEN 0 ELSE (CHOOSE x \in g : TRUE).n
Expect(e, d) == Count(S.nodes, e, d) + Count(S.ntombs, e, d) + Count(S.etombs, e, d)
Problems ==
    IF Ev.after.restart # "ok" THEN {<<"cannot-restart", Ev.fault.point, Ev.fault.kind>>}
    ELSE (IF ~Ev.after.probe THEN {<<"not-usable-after-restart", Ev.fault.point, Ev.fault.kind>>} ELSE {})
      \cup UNION {
             (IF Effects(r) = {TRUE, FALSE} THEN {<<"partial-effect", r.req, AckOf(r)>>} ELSE {})
             \cup (IF AckOf(r) = "ok" /\ FALSE \in Effects(r) THEN {<<"acknowledged-but-lost", r.req, "ok">>} ELSE {})
             \cup (IF AckOf(r) = "err" /\ TRUE \in Effects(r) THEN {<<"reported-failed-but-applied", r.req, "err">>} ELSE {})
           : r \in ToSet(Ev.workload)}
      \* once acknowledged the effect is visible to every later query (three queries on the reader pool right after the reply)
      \cup {<<"acknowledged-but-not-visible", a.req, "ok">> : a \in {x \in ToSet(Ev.acks) : x.res = "ok" /\ x.visible = "no"}}
      \cup {<<"log-differs-from-content", e, d>> : <<e, d>> \in {x \in {"A", "B"} \X Days : LogN(x[1], x[2]) # Expect(x[1], x[2])}}
      \cup (IF \E g \in ToSet(S.log) : g.dirty THEN {<<"mark-left-after-restart", "log", "dirty">>} ELSE {})
      \* a failing statement must not wedge the instance: it runs to the end, and sequential requests fail one batch at most
      \cup (IF Ev.fault.kind = "error" /\ ~Ev.done THEN {<<"instance-stopped-answering", Ev.fault.point, "error">>} ELSE {})
      \cup (IF Ev.fault.kind = "error" /\ ~Ev.concurrent /\ Cardinality({a \in ToSet(Ev.acks) : a.res = "err" /\ a.req # "compute"}) > 1
            THEN {<<"writer-wedged-after-a-failure", Ev.fault.point, "error">>} ELSE {})
      \cup (IF Ev.fault.kind = "none" /\ \E a \in ToSet(Ev.acks) : a.res # "ok" THEN {<<"failure-without-fault", "x", "x">>} ELSE {})
Attribute(o) == IF o[1] = "writer-wedged-after-a-failure" /\ o[2] \in {"marks.write", "commit.before"} THEN "FailureLeavesTxnOpen" ELSE "none"
Step == /\ l <= Len(Rec) /\ Ev.ev = "run" /\ l' = l + 1
        /\ LET objs == IF Ev.ready THEN Problems ELSE {<<"harness-error", "child", "not ready">>}
           IN /\ bad' = bad \cup {<<"UNEXPLAINED", o[1], o[2], o[3]>> : o \in {x \in objs : Attribute(x) \notin KNOWN}}
              /\ devs' = devs \cup {Attribute(o) : o \in {x \in objs : Attribute(x) \in KNOWN}}
        /\ UNCHANGED sid
Begin == /\ l <= Len(Rec) /\ Ev.ev = "begin" /\ l' = l + 1 /\ sid' = Ev.sid /\ bad' = {} /\ devs' = {}
End == /\ l <= Len(Rec) /\ Ev.ev = "end" /\ l' = l + 1 /\ PrintT(<<"DEVS", sid, devs>>) /\ UNCHANGED <<bad, devs, sid>>
TInit == l = 1 /\ bad = {} /\ devs = {} /\ sid = 0
TNext == Begin \/ Step \/ End
TSpec == TInit /\ [][TNext]_tvars
Monitors == \A o \in bad : o[1] # "UNEXPLAINED"
Reached == PrintT(<<"REACHED", TLCGet("stats").diameter - 1, Len(Rec)>>)
=============================================================================
