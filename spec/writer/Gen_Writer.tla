------------------------------ MODULE Gen_Writer ------------------------------
(* Fault enumeration for C13: workload x how the requests are issued x one  *)
(* fault (instrumented point, k-th hit, kill the process or make the        *)
(* statement fail).  One scenario per initial state.                        *)
EXTENDS Naturals, Sequences, TLC, Json
VARIABLES hist
C2(n, a, b) == [req |-> "create2", n |-> n, t1 |-> a, t2 |-> b]
I2(n, a, b) == [req |-> "ingest2", n |-> n, t1 |-> a, t2 |-> b]
Workloads == { << C2(1, "a1", "a2") >>,
               << C2(1, "a1", "a2"), [req |-> "delete", n |-> 2, row |-> "b3"], [req |-> "update", n |-> 3, row |-> "b2", text |-> "b2new"] >>,
               << [req |-> "unref", n |-> 1], C2(2, "a1", "a2"), [req |-> "compute", n |-> 3], [req |-> "update", n |-> 4, row |-> "b3", text |-> "b3new"] >>,
               << [req |-> "delete", n |-> 1, row |-> "b1"], C2(2, "c1", "c2"), C2(3, "d1", "d2") >>,
               \* synchronised batches (rows and a deletion record received from a peer) mixed with local writes
               << I2(1, "e1", "e2"), [req |-> "update", n |-> 2, row |-> "b2", text |-> "b2new"] >>,
               << C2(1, "a1", "a2"), [req |-> "ingestdel", n |-> 2, row |-> "b3"], I2(3, "e1", "e2") >> }
Faults == {[point |-> "none", hit |-> 0, kind |-> "none"]}
          \cup {[point |-> p, hit |-> h, kind |-> "abort"] : p \in {"batch.begin", "stmt.before", "node.write", "marks.before", "commit.before", "commit.after", "ack.before"}, h \in 1..3}
          \cup {[point |-> p, hit |-> h, kind |-> "error"] : p \in {"node.write", "marks.write", "commit.before"}, h \in 1..3}
Init == \E w \in Workloads, c \in BOOLEAN, f \in Faults : hist = [workload |-> w, concurrent |-> c, fault |-> f]
Next == UNCHANGED hist
Spec == Init /\ [][Next]_hist
Emit == PrintT(<<"SCN", ToJson(hist)>>)
=============================================================================
