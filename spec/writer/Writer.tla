------------------------------- MODULE Writer -------------------------------
(* The batching writer (C13), src/database/sqlite_database.rs:381-730: a    *)
(* buffer task forms batches, the writer thread applies a batch in one      *)
(* transaction (BEGIN, the requests' statements, the daily-log marks,       *)
(* COMMIT), then acknowledges every request of the batch.  Any statement,   *)
(* the marks or the commit can fail; the process can die anywhere.          *)
(* DEV: deviation of the code the pinned tree had (no rollback when the     *)
(* marks or the commit fail).                                               *)
EXTENDS Naturals, Sequences, FiniteSets, TLC
CONSTANTS Req, MaxBatch, DEV
VARIABLES queue,    \* requests accepted, not yet in a batch
          batch,    \* requests of the batch in progress
          pc,       \* "idle" | "begun" | "applied" | "marked" | "committed"
          staged,   \* effects written inside the open transaction
          marks,    \* the batch's marks are staged in the transaction
          txnopen,  \* the writer connection is inside a transaction
          db,       \* committed: set of <<r, k>> effects and "marks r"
          ack,      \* Req -> "none" | "ok" | "err"
          alive, sent,
          dirty,    \* committed marks not yet consumed by a recomputation (_daily_log rows flagged to recompute)
          log,      \* requests whose effects the committed daily log counts
          fresh     \* a recomputation ran and nothing was committed since
vars == <<queue, batch, pc, staged, marks, txnopen, db, ack, alive, sent, dirty, log, fresh>>
lvars == <<dirty, log, fresh>>
Has(d) == d \in DEV
Eff(r) == {<<r, 1>>, <<r, 2>>}                 \* every request writes two things (two rows, row + deletion record, ...)
Init == /\ queue = <<>> /\ batch = <<>> /\ pc = "idle" /\ staged = {} /\ marks = FALSE /\ txnopen = FALSE
        /\ db = {} /\ ack = [r \in Req |-> "none"] /\ alive = TRUE /\ sent = {}
        /\ dirty = {} /\ log = {} /\ fresh = TRUE
Enqueue(r) == /\ alive /\ r \notin sent /\ sent' = sent \cup {r} /\ queue' = Append(queue, r)
              /\ UNCHANGED <<batch, pc, staged, marks, txnopen, db, ack, alive, dirty, log, fresh>>
FailAll == ack' = [r \in Req |-> IF \E i \in DOMAIN batch : batch[i] = r THEN "err" ELSE ack[r]]
Begin == /\ alive /\ pc = "idle" /\ queue # <<>>
         /\ \E k \in 1..MaxBatch : k <= Len(queue) /\ batch' = SubSeq(queue, 1, k) /\ queue' = SubSeq(queue, k + 1, Len(queue))
         /\ IF txnopen
            THEN \* BEGIN fails: "cannot start a transaction within a transaction"
                 /\ pc' = "failed" /\ UNCHANGED <<staged, marks, txnopen>>
            ELSE pc' = "begun" /\ txnopen' = TRUE /\ staged' = {} /\ marks' = FALSE
         /\ UNCHANGED <<db, ack, alive, sent, dirty, log, fresh>>
ReportFailed == /\ alive /\ pc = "failed" /\ FailAll /\ pc' = "idle" /\ batch' = <<>>
                /\ UNCHANGED <<queue, staged, marks, txnopen, db, alive, sent, dirty, log, fresh>>
\* the statements of every request of the batch, in order; the i-th one may fail: rollback, everybody is told
ApplyAll == /\ alive /\ pc = "begun" /\ staged' = UNION {Eff(batch[i]) : i \in DOMAIN batch} /\ pc' = "applied"
            /\ UNCHANGED <<queue, batch, marks, txnopen, db, ack, alive, sent, dirty, log, fresh>>
ApplyFails == /\ alive /\ pc = "begun" /\ staged' = {} /\ txnopen' = FALSE /\ pc' = "failed"
              /\ UNCHANGED <<queue, batch, marks, db, ack, alive, sent, dirty, log, fresh>>
WriteMarks == /\ alive /\ pc = "applied" /\ marks' = TRUE /\ pc' = "marked"
              /\ UNCHANGED <<queue, batch, staged, txnopen, db, ack, alive, sent, dirty, log, fresh>>
MarksFail == /\ alive /\ pc = "applied" /\ pc' = "failed"
             /\ IF Has("FailureLeavesTxnOpen") THEN UNCHANGED <<staged, txnopen>> ELSE staged' = {} /\ txnopen' = FALSE
             /\ UNCHANGED <<queue, batch, marks, db, ack, alive, sent, dirty, log, fresh>>
BatchSet == {batch[i] : i \in DOMAIN batch}
Commit == /\ alive /\ pc = "marked" /\ staged' = {} /\ txnopen' = FALSE /\ fresh' = FALSE /\ UNCHANGED log
          /\ IF Has("MarksAfterCommit")
             THEN \* deviation (seeded change C13): the data is committed, the marks follow in autocommit
                  db' = db \cup staged /\ pc' = "marks_late" /\ UNCHANGED dirty
             ELSE db' = db \cup staged \cup {<<"marks", r>> : r \in BatchSet} /\ dirty' = dirty \cup BatchSet /\ pc' = "committed"
          /\ UNCHANGED <<queue, batch, marks, ack, alive, sent>>
LateMarks == /\ alive /\ pc = "marks_late" /\ db' = db \cup {<<"marks", r>> : r \in BatchSet} /\ dirty' = dirty \cup BatchSet /\ pc' = "committed"
             /\ UNCHANGED <<queue, batch, staged, marks, txnopen, ack, alive, sent, log, fresh>>
\* the recomputation (a request of its own batch, one transaction): every marked day is recounted from the stored rows
Stored == {r \in Req : Eff(r) \subseteq db}
Recompute == /\ alive /\ pc = "idle" /\ ~txnopen /\ log' = (log \ dirty) \cup (dirty \cap Stored) /\ dirty' = {} /\ fresh' = TRUE
             /\ UNCHANGED <<queue, batch, pc, staged, marks, txnopen, db, ack, alive, sent>>
\* reopening the folder (graph_database.rs:249-256 asks for a recomputation at every start)
Restart == /\ ~alive /\ alive' = TRUE /\ UNCHANGED <<queue, batch, pc, staged, marks, txnopen, db, ack, sent, dirty, log, fresh>>
CommitFails == /\ alive /\ pc = "marked" /\ pc' = "failed"
               /\ IF Has("FailureLeavesTxnOpen") THEN UNCHANGED <<staged, txnopen>> ELSE staged' = {} /\ txnopen' = FALSE
               /\ UNCHANGED <<queue, batch, marks, db, ack, alive, sent, dirty, log, fresh>>
AckAll == /\ alive /\ pc = "committed" /\ ack' = [r \in Req |-> IF \E i \in DOMAIN batch : batch[i] = r THEN "ok" ELSE ack[r]]
          /\ pc' = "idle" /\ batch' = <<>> /\ UNCHANGED <<queue, staged, marks, txnopen, db, alive, sent, dirty, log, fresh>>
\* the process dies: what was not committed is gone
Crash == /\ alive /\ alive' = FALSE /\ staged' = {} /\ txnopen' = FALSE /\ queue' = <<>> /\ batch' = <<>> /\ pc' = "idle"
         /\ UNCHANGED <<marks, db, ack, sent, dirty, log, fresh>>
Next == (\E r \in Req : Enqueue(r)) \/ Begin \/ ReportFailed \/ ApplyAll \/ ApplyFails \/ WriteMarks \/ MarksFail \/ Commit \/ LateMarks \/ CommitFails \/ AckAll \/ Crash \/ Restart \/ Recompute
Spec == Init /\ [][Next]_vars
Atomic == \A r \in Req : Eff(r) \subseteq db \/ Eff(r) \cap db = {}
AckedIsDurable == \A r \in Req : ack[r] = "ok" => Eff(r) \subseteq db
FailedHasNoEffect == \A r \in Req : ack[r] = "err" => Eff(r) \cap db = {}
MarksCommittedWithData == \A r \in Req : Eff(r) \subseteq db <=> <<"marks", r>> \in db
\* what makes the log repairable: stored content the log does not count is marked, in every state (so also after a crash)
UnloggedIsMarked == \A r \in Req : (Eff(r) \subseteq db /\ r \notin log) => r \in dirty
LogCountsOnlyStored == \A r \in log : r \in dirty \/ Eff(r) \subseteq db
RepairedByRecompute == fresh => (log = Stored /\ dirty = {})
WriterStaysUsable == (alive /\ pc = "idle") => ~txnopen
=============================================================================
