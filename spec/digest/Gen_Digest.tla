------------------------------ MODULE Gen_Digest ------------------------------
(* Evaluates Digest.tla over its whole universe and prints (a) every pair   *)
(* of distinct rows with the same pre-image, with the reason, (b) the pairs *)
(* that differ in exactly one field (which must not verify).                *)
EXTENDS Digest, Json
VARIABLE done
Fields(r) == DOMAIN r
DiffCount(a, b) == IF a.kind # b.kind THEN 99 ELSE Cardinality({f \in Fields(a) : a[f] # b[f]})
OneField == {p \in (Nodes \X Nodes) \cup (Edges \X Edges) \cup (NTombs \X NTombs) \cup (ETombs \X ETombs) : DiffCount(p[1], p[2]) = 1 /\ Pre(p[1]) # Pre(p[2])}
FramedInjective == \A p \in Rows \X Rows : p[1] # p[2] => PreFramed(p[1]) # PreFramed(p[2])
Init == done = FALSE
Next == /\ ~done /\ done' = TRUE
        /\ \A p \in Collisions : PrintT(<<"SCN", ToJson([r1 |-> p[1], r2 |-> p[2], expect |-> "collide", class |-> Class(p)])>>)
        /\ \A p \in OneField : PrintT(<<"SCN", ToJson([r1 |-> p[1], r2 |-> p[2], expect |-> "distinct", class |-> "none"])>>)
        /\ PrintT(<<"COUNTS", Cardinality(Rows), Cardinality(Collisions), Cardinality(OneField)>>)
Spec == Init /\ [][Next]_done
=============================================================================
