------------------------------ MODULE Gen_Digest ------------------------------
(* Evaluates Digest.tla over its whole universe and prints (a) every pair   *)
(* of distinct rows with the same pre-image, with the reason, (b) the pairs *)
(* that differ in exactly one field (which must not verify).                *)
EXTENDS Digest, Json
VARIABLE done
Fields(r) == DOMAIN r
DiffCount(a, b) == IF a.kind # b.kind THEN 99 ELSE Cardinality({f \in Fields(a) : a[f] # b[f]})
AllNodes == Nodes \cup JNodes
OneField == {p \in (AllNodes \X AllNodes) \cup (Edges \X Edges) \cup (NTombs \X NTombs) \cup (ETombs \X ETombs) : DiffCount(p[1], p[2]) = 1 /\ Pre(p[1]) # Pre(p[2])}
\* pairs that would collide if the JSON payload were hashed as it is: they must not verify for each other
Protected == {p \in AllNodes \X AllNodes : p[1] # p[2] /\ PreFlat(p[1]) = PreFlat(p[2]) /\ Pre(p[1]) # Pre(p[2])}
FramedInjective == \A p \in Rows \X Rows : p[1] # p[2] => PreFramed(p[1]) # PreFramed(p[2])
Init == done = FALSE
Next == /\ ~done /\ done' = TRUE
        /\ \A p \in Collisions : PrintT(<<"SCN", ToJson([r1 |-> p[1], r2 |-> p[2], expect |-> "collide", class |-> Class(p)])>>)
        /\ \A p \in OneField : PrintT(<<"SCN", ToJson([r1 |-> p[1], r2 |-> p[2], expect |-> "distinct", class |-> "none"])>>)
        /\ \A p \in Protected : PrintT(<<"SCN", ToJson([r1 |-> p[1], r2 |-> p[2], expect |-> "distinct", class |-> "JsonQuotingSeparates"])>>)
        /\ PrintT(<<"COUNTS", Cardinality(Rows), Cardinality(Collisions), Cardinality(OneField)>>)
Spec == Init /\ [][Next]_done
=============================================================================
