------------------------------- MODULE Digest -------------------------------
(* What the signatures of the four signed kinds of rows cover (C06):        *)
(* node.rs:151-172 and 819-835, edge.rs:129-138 and 400-418.  The digest is *)
(* a hash of the plain concatenation of the fields: no lengths, no kind     *)
(* tag, optional fields simply left out.  Fields are modelled as strings    *)
(* over {a, b}; one model character stands for one block of eight bytes, so *)
(* the concatenation of the model is, block for block, the byte string the  *)
(* code hashes (identifiers: two blocks; dates: one block; text and binary  *)
(* fields: any number of blocks).  The hash and the signature scheme are    *)
(* ideal: signatures verify for exactly the rows with the same pre-image.   *)
EXTENDS Naturals, Sequences, FiniteSets, TLC
Opt(S) == S \cup {"-"}                       \* "-" : the optional field is absent
Cat(x) == IF x = "-" THEN "" ELSE x
Nodes == [kind : {"node"}, id : {"aa", "ab"}, room : Opt({"aa", "ba"}), c : {"a", "b"}, m : {"a", "b"},
          ent : {"a", "b", "aa", "ab", "ba"}, json : {"-"}, bin : Opt({"", "a", "b", "aa"})]
\* nodes with a JSON payload: block a is the eight bytes of {"a":1} and a space, block b eight spaces, so that a, ab and ba
\* are JSON objects (the code refuses anything else) and the same blocks can appear in the binary payload.  The code hashes the JSON
\* text re-serialised as a JSON string: between quotes, which no other field can contain - the only delimiter of the digest
JNodes == [kind : {"node"}, id : {"aa"}, room : Opt({"aa"}), c : {"a"}, m : {"a"}, ent : {"a", "ab"}, json : {"a", "ab", "ba"}, bin : Opt({"", "a", "b", "ab"})]
Quoted(j) == IF j = "-" THEN "" ELSE "q" \o j \o "q"
Edges == [kind : {"edge"}, src : {"aa"}, sent : {"a", "b", "aa", "ab"}, label : {"a", "b", "aa", "ba"}, dst : {"aa", "ab"}, c : {"a", "b"}]
NTombs == [kind : {"ntomb"}, room : {"aa"}, id : {"aa", "ab"}, m : {"a", "b"}, ent : {"a", "aa", "ab"}, d : {"a", "b"}]
ETombs == [kind : {"etomb"}, room : {"aa"}, src : {"aa"}, sent : {"a", "aa", "ab"}, label : {"a", "b", "ba"}, dst : {"aa"}, c : {"a", "b"}, d : {"a", "b"}]
Rows == Nodes \cup JNodes \cup Edges \cup NTombs \cup ETombs
\* the pre-image of the digest, field order as in the code (the signer's key, appended last, is the same for both rows)
Pre(r) == CASE r.kind = "node" -> r.id \o Cat(r.room) \o r.c \o r.m \o r.ent \o Quoted(r.json) \o Cat(r.bin)
            [] r.kind = "edge" -> r.src \o r.sent \o r.label \o r.dst \o r.c
            [] r.kind = "ntomb" -> r.room \o r.id \o r.m \o r.ent \o r.d
            [] OTHER -> r.room \o r.src \o r.sent \o r.label \o r.dst \o r.c \o r.d
\* the same without the quotes: the pairs that only the quoting keeps apart
PreFlat(r) == IF r.kind = "node" THEN r.id \o Cat(r.room) \o r.c \o r.m \o r.ent \o Cat(r.json) \o Cat(r.bin) ELSE Pre(r)
\* C06: a signature valid for one row is valid for no other row, of any kind
Collisions == {p \in Rows \X Rows : p[1] # p[2] /\ Pre(p[1]) = Pre(p[2])}
Injective == Collisions = {}
\* why two rows collide
Class(p) == IF p[1].kind # p[2].kind THEN "NoKindSeparation"
            ELSE IF p[1].kind = "node" /\ ((p[1].room = "-") # (p[2].room = "-") \/ (p[1].bin = "-") # (p[2].bin = "-")) THEN "OptionalFieldOmitted"
            ELSE "UnframedConcatenation"
\* the intended encoding: kind tag, every field length-prefixed, presence marked
Framed(x) == "[" \o x \o "]"
PreFramed(r) == CASE r.kind = "node" -> "N" \o Framed(r.id) \o Framed(r.room) \o Framed(r.c) \o Framed(r.m) \o Framed(r.ent) \o Framed(r.json) \o Framed(r.bin)
                  [] r.kind = "edge" -> "E" \o Framed(r.src) \o Framed(r.sent) \o Framed(r.label) \o Framed(r.dst) \o Framed(r.c)
                  [] r.kind = "ntomb" -> "T" \o Framed(r.room) \o Framed(r.id) \o Framed(r.m) \o Framed(r.ent) \o Framed(r.d)
                  [] OTHER -> "U" \o Framed(r.room) \o Framed(r.src) \o Framed(r.sent) \o Framed(r.label) \o Framed(r.dst) \o Framed(r.c) \o Framed(r.d)
=============================================================================
