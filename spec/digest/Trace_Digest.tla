----------------------------- MODULE Trace_Digest -----------------------------
(* C06 on the real sign / verify functions: for every pair chosen by        *)
(* Gen_Digest the second row, carrying the signature of the first, must     *)
(* verify exactly when the two rows have the same pre-image in Digest.tla   *)
(* (this binds the model's Pre to the real digest), and it must never       *)
(* verify when the rows differ (C06).  The answer to an identity challenge  *)
(* must not verify as a row.                                                *)
EXTENDS Digest, Json, IOUtils
CONSTANTS KNOWN
Rec == ndJsonDeserialize(IOEnv.TRACE)
VARIABLES l, bad, devs, sid
tvars == <<l, bad, devs, sid>>
Ev == Rec[l]
Problems ==
    IF Ev.ev = "oracle" THEN (IF Ev.verified THEN {<<"challenge-answer-verifies-as-a-row", "ChallengeSignedRaw">>} ELSE {})
    ELSE (IF ~Ev.own THEN {<<"own-signature-does-not-verify", "none">>} ELSE {})
         \* the model's pre-image agrees with the real digest
         \cup (IF Ev.verified # (Pre(Ev.r1) = Pre(Ev.r2)) THEN {<<"model-and-code-disagree-on-the-digest", "none">>} ELSE {})
         \* the property itself
         \cup (IF Ev.verified /\ Ev.r1 # Ev.r2 THEN {<<"signature-valid-for-another-row", Class(<<Ev.r1, Ev.r2>>)>>} ELSE {})
Step == /\ l <= Len(Rec) /\ Ev.ev \in {"pair", "oracle"} /\ l' = l + 1
        /\ bad' = bad \cup {<<"UNEXPLAINED", o[1]>> : o \in {x \in Problems : x[2] \notin KNOWN}}
        /\ devs' = devs \cup {o[2] : o \in {x \in Problems : x[2] \in KNOWN}}
        /\ UNCHANGED sid
Begin == /\ l <= Len(Rec) /\ Ev.ev = "begin" /\ l' = l + 1 /\ sid' = Ev.sid /\ bad' = {} /\ devs' = {}
End == /\ l <= Len(Rec) /\ Ev.ev = "end" /\ l' = l + 1 /\ PrintT(<<"DEVS", sid, devs>>) /\ UNCHANGED <<bad, devs, sid>>
TInit == l = 1 /\ bad = {} /\ devs = {} /\ sid = 0
TNext == Begin \/ Step \/ End
TSpec == TInit /\ [][TNext]_tvars
Monitors == \A o \in bad : o[1] # "UNEXPLAINED"
Reached == PrintT(<<"REACHED", TLCGet("stats").diameter - 1, Len(Rec)>>)
=============================================================================
