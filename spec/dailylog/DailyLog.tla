------------------------------ MODULE DailyLog ------------------------------
(* The daily log of one room (C09): marking of touched (entity, day) pairs  *)
(* in the transaction of the write, and the recomputation pass of           *)
(* src/database/daily_log.rs:78-270 transcribed loop by loop (window query, *)
(* clean/dirty branches, the carried previous_* variables).                 *)
(*                                                                          *)
(* Content is abstracted to what the log hashes: items (signatures of row   *)
(* versions and deletion records), each living on one (entity, day).        *)
(* Hashes are injective constructors.                                       *)
(* DEV: deviations of the code from "the log is a function of the content". *)
EXTENDS Naturals, FiniteSets, Sequences, TLC
CONSTANTS Ent, EntRank, MaxDay, MaxItem, DEV
VARIABLES items,   \* set of [id, ent, day] : what is stored
          log,     \* [Ent \X Days -> NoRow | [n, dh, hh, dirty]]
          next     \* next item id
vars == <<items, log, next>>
Days == 0..MaxDay
NoRow == [n |-> 0, dh |-> "norow", hh |-> "norow", dirty |-> FALSE]
None == "none"
Has(d) == d \in DEV
\* hash terms are strings so that any two of them can be compared
H2(a, b) == "H(" \o a \o "," \o b \o ")"
H1(a) == "H(" \o a \o ")"
D(S) == ToString(S)

Init == items = {} /\ log = [k \in Ent \X Days |-> NoRow] /\ next = 1

Mark(lg, S) == [k \in Ent \X Days |-> IF k \in S
                                      THEN (IF lg[k] = NoRow THEN [n |-> 0, dh |-> None, hh |-> None, dirty |-> TRUE]
                                            ELSE [lg[k] EXCEPT !.dh = None, !.dirty = TRUE])
                                      ELSE lg[k]]

\* ------------------------------------------------------------ writes (each one transaction: data + marks)
Add(e, d) == /\ next <= MaxItem
             /\ items' = items \cup {[id |-> next, ent |-> e, day |-> d]}
             /\ log' = Mark(log, {<<e, d>>}) /\ next' = next + 1
\* an update replaces a row version by a newer one, possibly on another day (local mutation marks both days;
\* a synchronised replacement and a reference deletion mark the new day only)
Move(i, d, local) == /\ next <= MaxItem /\ i \in items
                     /\ items' = (items \ {i}) \cup {[id |-> next, ent |-> i.ent, day |-> d]}
                     /\ log' = Mark(log, {<<i.ent, d>>} \cup (IF local \/ ~Has("MoveDoesNotMarkOldDay") THEN {<<i.ent, i.day>>} ELSE {}))
                     /\ next' = next + 1
\* a deletion removes the row version and adds a deletion record on the deletion day; both days are marked
Remove(i, d) == /\ next <= MaxItem /\ i \in items /\ d >= i.day
                /\ items' = (items \ {i}) \cup {[id |-> next, ent |-> i.ent, day |-> d]}
                /\ log' = Mark(log, {<<i.ent, d>>, <<i.ent, i.day>>}) /\ next' = next + 1

\* ------------------------------------------------------------ recomputation
Content(S, e, d) == {i.id : i \in {j \in S : j.ent = e /\ j.day = d}}
HasRow(lg, e, d) == lg[<<e, d>>] # NoRow
DirtyDays(lg, e) == {d \in Days : HasRow(lg, e, d) /\ lg[<<e, d>>].dirty}
Min(S) == CHOOSE x \in S : \A y \in S : x <= y
Max(S) == CHOOSE x \in S : \A y \in S : x >= y
\* the window query: per entity, rows from the last clean day before the first dirty one
Window(lg, e) == IF DirtyDays(lg, e) = {} THEN {}
                 ELSE LET fd == Min(DirtyDays(lg, e))
                          before == {d \in Days : HasRow(lg, e, d) /\ d < fd}
                          from == IF before = {} THEN fd ELSE Max(before)
                      IN {d \in Days : HasRow(lg, e, d) /\ d >= from}
\* rows in the order of the query: entity (storage name), then date
RECURSIVE SeqOfDays(_)
SeqOfDays(S) == IF S = {} THEN <<>> ELSE <<Min(S)>> \o SeqOfDays(S \ {Min(S)})
RECURSIVE SeqOfEnts(_)
SeqOfEnts(S) == IF S = {} THEN <<>>
                ELSE LET e == CHOOSE f \in S : \A g \in S : EntRank[f] <= EntRank[g] IN <<e>> \o SeqOfEnts(S \ {e})
RECURSIVE RowsOf(_, _)
RowsOf(lg, es) == IF es = <<>> THEN <<>>
                  ELSE LET ds == SeqOfDays(Window(lg, Head(es)))
                       IN [i \in 1..Len(ds) |-> <<Head(es), ds[i]>>] \o RowsOf(lg, Tail(es))

\* one iteration of the loop AS THE CODE DOES IT; c = carried state [lg, seen, pent, ph, phist]
\* (seen/pent model previous_room/previous_entity; the code compares the entity for clean rows only)
\* three quirks: (1) a clean first row of a group resets the carried hashes instead of loading them, so the
\* recomputed day gets a NULL history; (2) a dirty row is chained to the previous row of the ROOM, whatever
\* its entity; (3) a day left without content keeps a row (n = 0, NULL hash) that takes part in the chain
CodeStep(c, k, S) ==
    LET row == c.lg[k]
        same == c.seen /\ c.pent = k[1]
    IN IF ~row.dirty
       THEN IF same
            THEN IF c.phist # None
                 THEN LET h == IF c.ph # None THEN H2(c.phist, c.ph) ELSE H1(c.phist)
                      IN [c EXCEPT !.lg[k].hh = h, !.phist = h, !.ph = row.dh, !.seen = TRUE, !.pent = k[1]]
                 ELSE [c EXCEPT !.phist = row.hh, !.ph = row.dh, !.seen = TRUE, !.pent = k[1]]
            ELSE [c EXCEPT !.ph = None, !.phist = None, !.seen = TRUE, !.pent = k[1]]
       ELSE LET cont == Content(S, k[1], k[2])
                dh == IF cont = {} THEN None ELSE D(cont)
                hh == IF c.seen
                      THEN (IF c.phist # None THEN (IF c.ph # None THEN H2(c.phist, c.ph) ELSE H1(c.phist)) ELSE None)
                      ELSE dh
                newrow == [n |-> Cardinality(cont), dh |-> dh, hh |-> hh, dirty |-> FALSE]
            IN [c EXCEPT !.lg[k] = newrow, !.ph = dh, !.phist = hh, !.seen = TRUE, !.pent = k[1]]

\* the same loop AS DESIGNED: c = [lg, pent, started, dirtyseen, ph, phist]
\*   a clean row met before any dirty row of its entity is the predecessor: its hashes are loaded;
\*   a day without content loses its row; every row after the first dirty one is re-chained
DesignStep(c0, k, S) ==
    LET c == IF c0.pent = k[1] THEN c0 ELSE [c0 EXCEPT !.pent = k[1], !.started = FALSE, !.dirtyseen = FALSE]
        row == c.lg[k]
    IN IF ~row.dirty
       THEN IF ~c.dirtyseen
            THEN [c EXCEPT !.started = TRUE, !.ph = row.dh, !.phist = row.hh]
            ELSE LET hh == IF c.started THEN H2(c.phist, c.ph) ELSE row.dh
                 IN [c EXCEPT !.lg[k].hh = hh, !.started = TRUE, !.ph = row.dh, !.phist = hh]
       ELSE LET cont == Content(S, k[1], k[2])
            IN IF cont = {} THEN [c EXCEPT !.lg[k] = NoRow, !.dirtyseen = TRUE]
               ELSE LET dh == D(cont)
                        hh == IF c.started THEN H2(c.phist, c.ph) ELSE dh
                    IN [c EXCEPT !.lg[k] = [n |-> Cardinality(cont), dh |-> dh, hh |-> hh, dirty |-> FALSE],
                                 !.started = TRUE, !.dirtyseen = TRUE, !.ph = dh, !.phist = hh]

RECURSIVE CodeLoop(_, _, _)
CodeLoop(c, rows, S) == IF rows = <<>> THEN c ELSE CodeLoop(CodeStep(c, Head(rows), S), Tail(rows), S)
RECURSIVE DesignLoop(_, _, _)
DesignLoop(c, rows, S) == IF rows = <<>> THEN c ELSE DesignLoop(DesignStep(c, Head(rows), S), Tail(rows), S)

Computed(lg, S) ==
    IF Has("RecomputeAsCode")
    THEN CodeLoop([lg |-> lg, seen |-> FALSE, pent |-> None, ph |-> None, phist |-> None], RowsOf(lg, SeqOfEnts(Ent)), S).lg
    ELSE DesignLoop([lg |-> lg, pent |-> None, started |-> FALSE, dirtyseen |-> FALSE, ph |-> None, phist |-> None],
                    RowsOf(lg, SeqOfEnts(Ent)), S).lg

Recompute == log' = Computed(log, items) /\ UNCHANGED <<items, next>>

Next == \/ \E e \in Ent, d \in Days : Add(e, d)
        \/ \E i \in items, d \in Days, local \in BOOLEAN : Move(i, d, local)
        \/ \E i \in items, d \in Days : Remove(i, d)
        \/ Recompute
Spec == Init /\ [][Next]_vars

\* ------------------------------------------------------------ the log as a function of the content
RECURSIVE Chain(_, _, _)
\* history hash of day d of entity e, over the days that have content
Chain(S, e, d) ==
    LET ds == {x \in Days : x < d /\ Content(S, e, x) # {}}
    IN IF ds = {} THEN D(Content(S, e, d))
       ELSE LET p == Max(ds) IN H2(Chain(S, e, p), D(Content(S, e, p)))
F(S) == [k \in Ent \X Days |-> IF Content(S, k[1], k[2]) = {} THEN NoRow
                               ELSE [n |-> Cardinality(Content(S, k[1], k[2])), dh |-> D(Content(S, k[1], k[2])),
                                     hh |-> Chain(S, k[1], k[2]), dirty |-> FALSE]]
NoDirty == \A k \in Ent \X Days : ~log[k].dirty
LogIsFunctionOfContent == NoDirty => log = F(items)
\* weaker form that ignores the chain: counts and daily hashes
DailyPartOK == NoDirty => \A k \in Ent \X Days : log[k].n = F(items)[k].n /\ (log[k].dh = F(items)[k].dh \/ (log[k].dh = None /\ F(items)[k] = NoRow))
=============================================================================
