--------------------------- MODULE Gen_DailyLog ---------------------------
(* Directed scenarios for C09: what a recomputation pass meets.             *)
(* Phase 1: peer p1 writes new rows on a set P1 of (entity, day) cells;     *)
(* peer p2 pulls (one batch, one recomputation on p2; p1 recomputes after   *)
(* every write).  Phase 2: p1 writes new rows on a set P2 of cells, and     *)
(* possibly updates or deletes one phase-1 row on some day; p2 pulls again: *)
(* its single pass then meets several (entity) groups with pending days,    *)
(* each with any number of already computed days before, between and after. *)
(* One scenario per initial state.                                          *)
EXTENDS Naturals, Sequences, FiniteSets, TLC, Json
VARIABLE hist
Ents == {"A", "B"}
Days == 0..2
Cells == Ents \X Days
RowName(ph, c) == "x" \o ToString(ph) \o c[1] \o ToString(c[2])
Lt(a, b) == a = "A" /\ b = "B"
RECURSIVE Ordered(_)
Ordered(S) == IF S = {} THEN <<>>
              ELSE LET x == CHOOSE y \in S : \A z \in S : y = z \/ Lt(y[1], z[1]) \/ (y[1] = z[1] /\ y[2] < z[2])
                   IN <<x>> \o Ordered(S \ {x})
Writes(ph, S) == LET sq == Ordered(S) IN
    [i \in 1..(2 * Len(sq)) |-> IF i % 2 = 1 THEN [op |-> "at", d |-> sq[(i + 1) \div 2][2]]
                                ELSE [op |-> "put", p |-> "p1", row |-> RowName(ph, sq[i \div 2]), ent |-> sq[i \div 2][1], sim |-> FALSE]]
Special(kind, c, d) ==
    IF kind = "none" THEN <<>>
    ELSE << [op |-> "at", d |-> d],
            IF kind = "upd" THEN [op |-> "put", p |-> "p1", row |-> RowName(1, c), ent |-> c[1], sim |-> FALSE]
            ELSE [op |-> "del", p |-> "p1", row |-> RowName(1, c), ent |-> c[1]] >>
Pull == <<[op |-> "pull", p |-> "p2", q |-> "p1"]>>
Init == \E P1 \in SUBSET Cells, P2 \in SUBSET Cells, kind \in {"none", "upd", "del"}, c \in Cells, d \in Days :
          /\ P1 # {} /\ Cardinality(P2) <= 3
          /\ (kind = "none" => c = <<"A", 0>> /\ d = 0)
          /\ (kind # "none" => c \in P1 /\ d >= c[2])
          /\ hist = Writes(1, P1) \o Pull \o Writes(2, P2) \o Special(kind, c, d) \o Pull
Next == UNCHANGED hist
Spec == Init /\ [][Next]_hist
Emit == PrintT(<<"SCN", ToJson(hist)>>)
=============================================================================
