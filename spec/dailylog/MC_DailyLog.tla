---- MODULE MC_DailyLog ----
EXTENDS DailyLog
CONSTANTS A, B
EntRankAB == (A :> 1) @@ (B :> 2)
====
