--------------------------- MODULE Trace_DailyLog ---------------------------
(* Validates traces of real peers (dv world) for C09: in every observed     *)
(* state in which a peer has no pending recomputation, its daily log must   *)
(* equal F(content) of DailyLog.tla evaluated on the observed rows and      *)
(* deletion records: one row per (room, entity, day) that has content, with *)
(* the entry count, the daily hash D(signatures) and the chained history.   *)
(* Hash terms are strings, decoded by the harness from the stored bytes     *)
(* (D = "{s1, s2}", H = "H(a,b)", NULL = "none", anything else "X<n>").     *)
EXTENDS Naturals, FiniteSets, Sequences, Json, IOUtils, TLC
CONSTANTS KNOWN
Rec == ndJsonDeserialize(IOEnv.TRACE)
VARIABLES l, st, peers, bad, devs, sid
tvars == <<l, st, peers, bad, devs, sid>>
ToSet(s) == {s[i] : i \in DOMAIN s}
Ev == Rec[l]
Empty == [nodes |-> <<>>, edges |-> <<>>, ntombs |-> <<>>, etombs |-> <<>>, log |-> <<>>]
DayOf(m) == m \div 1000

\* what the log of peer p summarises: (room, ent, day, signature)
Items(s, p) == {<<n.room, n.ent, DayOf(n.m), n.s>> : n \in ToSet(s[p].nodes)}
               \cup {<<t.room, t.ent, DayOf(t.d), t.s>> : t \in ToSet(s[p].ntombs)}
               \cup {<<t.room, t.ent, DayOf(t.d), t.s>> : t \in ToSet(s[p].etombs)}
Content(I, r, e, d) == {i[4] : i \in {j \in I : j[1] = r /\ j[2] = e /\ j[3] = d}}
DaysWith(I, r, e) == {i[3] : i \in {j \in I : j[1] = r /\ j[2] = e}}
Max(S) == CHOOSE x \in S : \A y \in S : x >= y
D(S) == ToString(S)
RECURSIVE Chain(_, _, _, _)
Chain(I, r, e, d) ==
    LET ds == {x \in DaysWith(I, r, e) : x < d}
    IN IF ds = {} THEN D(Content(I, r, e, d))
       ELSE LET p == Max(ds) IN "H(" \o Chain(I, r, e, p) \o "," \o D(Content(I, r, e, p)) \o ")"

LogRows(s, p) == ToSet(s[p].log)
Groups(s, p) == {<<i[1], i[2]>> : i \in Items(s, p)} \cup {<<g.room, g.ent>> : g \in LogRows(s, p)}
RowAt(s, p, r, e, d) == {g \in LogRows(s, p) : g.room = r /\ g.ent = e /\ g.day = d}
Dirty(s, p) == \E g \in LogRows(s, p) : g.dirty

\* objects that violate "log = F(content)" on peer p
LogBad(s, p) ==
    LET I == Items(s, p)
    IN UNION {
         LET r == g[1]  e == g[2]
         IN UNION {
              LET row == RowAt(s, p, r, e, d)
                  c == Content(I, r, e, d)
              IN IF row = {} THEN {<<"log", p, r, e, d, "missing">>}
                 ELSE LET w == CHOOSE x \in row : TRUE
                      IN (IF w.n # Cardinality(c) THEN {<<"log", p, r, e, d, "count">>} ELSE {})
                         \cup (IF w.dh # D(c) THEN {<<"log", p, r, e, d, "daily">>} ELSE {})
                         \cup (IF w.hh # Chain(I, r, e, d) THEN {<<"log", p, r, e, d, "history">>} ELSE {})
            : d \in DaysWith(I, r, e)}
            \cup {<<"log", p, r, e, w.day, "extra">> : w \in {x \in LogRows(s, p) : x.room = r /\ x.ent = e /\ x.day \notin DaysWith(I, r, e)}}
       : g \in Groups(s, p)}

NowBad(s) == UNION {IF Dirty(s, p) THEN {} ELSE LogBad(s, p) : p \in peers}

\* ------------------------------------------------------------ attribution to listed deviations of DailyLog.tla
TheRow(s, o) == CHOOSE x \in RowAt(s, o[2], o[3], o[4], o[5]) : TRUE
Attribute(o, s0, s1) ==
    IF o[6] = "extra" /\ TheRow(s1, o).n = 0 /\ TheRow(s1, o).dh = "none" THEN "EmptyDayRowSurvives"
    ELSE IF o[6] = "history" THEN "HistoryChainAsCode"
    ELSE IF o[6] \in {"count", "daily", "extra"} /\ Ev.ev \in {"pull", "unref"}
            /\ RowAt(s0, o[2], o[3], o[4], o[5]) = RowAt(s1, o[2], o[3], o[4], o[5]) THEN "MoveDoesNotMarkOldDay"
    ELSE "none"

Observed == [p \in peers |-> Ev.st[p]]
Step ==
    /\ l <= Len(Rec) /\ Ev.ev \notin {"begin", "end"}
    /\ l' = l + 1
    /\ LET s1 == Observed
           nb == NowBad(s1)
           fresh == nb \ bad
           named == {<<o, Attribute(o, st, s1)>> : o \in fresh}
       IN /\ st' = s1
          /\ bad' = (bad \cap nb) \cup {x[1] : x \in {y \in named : y[2] \in KNOWN}}
                    \cup {<<"UNEXPLAINED", x[1]>> : x \in {y \in named : y[2] \notin KNOWN}}
          /\ devs' = devs \cup {x[2] : x \in {y \in named : y[2] \in KNOWN}}
    /\ UNCHANGED <<peers, sid>>
Begin == /\ l <= Len(Rec) /\ Ev.ev = "begin" /\ l' = l + 1
         /\ peers' = ToSet(Ev.peers) /\ sid' = Ev.sid
         /\ st' = [p \in ToSet(Ev.peers) |-> Empty]
         /\ bad' = {} /\ devs' = {}
End == /\ l <= Len(Rec) /\ Ev.ev = "end" /\ l' = l + 1
       /\ PrintT(<<"DEVS", sid, devs>>)
       /\ UNCHANGED <<st, peers, bad, devs, sid>>
TInit == l = 1 /\ st = <<>> /\ peers = {} /\ bad = {} /\ devs = {} /\ sid = 0
TNext == Begin \/ Step \/ End
TSpec == TInit /\ [][TNext]_tvars
Monitors == \A o \in bad : o[1] # "UNEXPLAINED"
Reached == PrintT(<<"REACHED", TLCGet("stats").diameter - 1, Len(Rec)>>)
=============================================================================
