----------------------------- MODULE Gen_Store -----------------------------
(* Prints the tests of C04: every value of Store.tla (a sequence of         *)
(* character classes) on every route - parameter, literal with each choice  *)
(* of raw / escaped per character - and every value as the default of a     *)
(* field that is then filtered.  The check instantiates each class by       *)
(* concrete characters; the other scalar types are enumerated by class      *)
(* names that the check instantiates in the same way.                       *)
EXTENDS Store, Json
\* the other scalar types: value classes, instantiated by the check
Scalars == [Integer |-> {"min", "minp1", "neg", "m1", "zero", "one", "pos", "maxm1", "max", "i53"},
            Float   |-> {"zero", "one", "frac", "neg", "tiny", "huge", "max", "denorm", "digits17", "intlike"},
            Boolean |-> {"true", "false"},
            Base64  |-> {"empty", "short", "pad", "urlsafe", "long"},
            Json    |-> {"object", "array", "string", "number", "nested", "quotes", "null", "unicode", "bool"}]
VARIABLE done
ScalarTypes == DOMAIN Scalars
Init0 == done = FALSE /\ Init
Next0 == /\ ~done /\ done' = TRUE /\ UNCHANGED vars
         /\ \A v \in Values : PrintT(<<"SCN", ToJson([kind |-> "value", type |-> "String", via |-> "param", cls |-> v, form |-> <<>>])>>)
         /\ \A v \in Values : \A t \in Lits(v) : PrintT(<<"SCN", ToJson([kind |-> "value", type |-> "String", via |-> "literal", cls |-> v, form |-> t])>>)
         /\ \A v \in Values : \A t \in Lits(v) : PrintT(<<"SCN", ToJson([kind |-> "default", type |-> "String", via |-> "model", cls |-> v, form |-> t])>>)
         /\ \A ty \in ScalarTypes : \A c \in Scalars[ty] : \A via \in {"param", "literal"} :
               PrintT(<<"SCN", ToJson([kind |-> "value", type |-> ty, via |-> via, cls |-> <<c>>, form |-> <<>>])>>)
         /\ \A ty \in ScalarTypes : \A c \in Scalars[ty] :
               PrintT(<<"SCN", ToJson([kind |-> "default", type |-> ty, via |-> "model", cls |-> <<c>>, form |-> <<>>])>>)
         /\ PrintT(<<"COUNTS", Cardinality(Values), Cardinality(UNION {{<<v, t>> : t \in Lits(v)} : v \in Values})>>)
GSpec == Init0 /\ [][Next0]_<<done, vars>>
=============================================================================
