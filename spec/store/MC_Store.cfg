CONSTANTS
  Cls = {"plain", "squote", "dquote", "bslash", "newline", "astral"}
  MaxLen = 2
  Keys = {1, 2}
  DEV = {}
SPECIFICATION Spec
INVARIANT RoundTrip
INVARIANT FilterFindsWritten
INVARIANT StructureFixed
INVARIANT OtherFieldUntouched
CHECK_DEADLOCK FALSE
