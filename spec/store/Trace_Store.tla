---------------------------- MODULE Trace_Store ----------------------------
(* C04 on the real code (dv values).  Every "value" event is one test of    *)
(* Gen_Store: two witness rows, the row under test written through the real *)
(* mutate() on the stated route, the rows of the room read back, an         *)
(* equality filter on the value.  Values are compared in the encoded form   *)
(* the harness logs (hex of the UTF-8 bytes, bits of a float, canonical     *)
(* JSON).  The monitors are the invariants of Store.tla evaluated on the    *)
(* observation: RoundTrip, FilterFindsWritten (and nothing else),           *)
(* OtherFieldUntouched / no other row touched, StructureFixed (no request   *)
(* is answered by an engine error).                                         *)
EXTENDS Naturals, FiniteSets, Sequences, Json, IOUtils, TLC
CONSTANTS KNOWN
Rec == ndJsonDeserialize(IOEnv.TRACE)
VARIABLES l, bad, devs, sid
tvars == <<l, bad, devs, sid>>
ToSet(s) == {s[i] : i \in DOMAIN s}
Ev == Rec[l]
Rows == ToSet(Ev.rows)
RowK(k) == {r \in Rows : r.k = k}
VOf(k) == (CHOOSE r \in RowK(k) : TRUE).v
OOf(k) == (CHOOSE r \in RowK(k) : TRUE).o
W1 == "s:7731"
W2 == "s:7732"
X == "s:78"
ValueBad ==
    (IF Ev.setup # "ok" \/ Ev.write # "ok" \/ Ev.read # "ok" THEN {<<"error", Ev.tid, Ev.type, Ev.via>>} ELSE {})
    \cup (IF Ev.read = "ok" /\ Ev.write = "ok" /\ (RowK(3) = {} \/ (RowK(3) # {} /\ VOf(3) # Ev.want)) THEN {<<"roundtrip", Ev.tid, Ev.type, Ev.via>>} ELSE {})
    \cup (IF Ev.read = "ok" /\ Ev.setup = "ok" /\
             ~(/\ Cardinality(Rows) = (IF Ev.write = "ok" THEN 3 ELSE 2) /\ Len(Ev.rows) = Cardinality(Rows)
               /\ RowK(1) # {} /\ RowK(2) # {}
               /\ VOf(1) = Ev.wit /\ OOf(1) = W1 /\ VOf(2) = "null" /\ OOf(2) = W2
               /\ (RowK(3) # {} => OOf(3) = X))
          THEN {<<"otherrow", Ev.tid, Ev.type, Ev.via>>} ELSE {})
    \cup (IF Ev.filter # "n/a" /\ Ev.read = "ok" /\
             (Ev.filter # "ok" \/ ToSet(Ev.ks) # {r.k : r \in {x \in Rows : x.v = Ev.want}} \/ Len(Ev.ks) # Cardinality(ToSet(Ev.ks)))
          THEN {<<"filter", Ev.tid, Ev.type, Ev.via>>} ELSE {})
    \* the same filter next to a literal spelled like the name of the variable
    \cup (IF Ev.filter2 # "n/a" /\ Ev.read = "ok" /\
             (Ev.filter2 # "ok" \/ ToSet(Ev.ks2) # {r.k : r \in {x \in Rows : x.v = Ev.want}})
          THEN {<<"capture", Ev.tid, Ev.type, Ev.via>>} ELSE {})
DefaultBad ==
    (IF Ev.setup # "ok" \/ Ev.read # "ok" THEN {<<"error", Ev.tid, Ev.type, "default">>} ELSE {})
    \cup (IF Ev.read = "ok" /\ Ev.setup = "ok" /\
             ~(Cardinality(Rows) = 2 /\ RowK(1) # {} /\ RowK(2) # {} /\ VOf(1) = Ev.want /\ VOf(2) = Ev.other /\ OOf(1) = W1 /\ OOf(2) = W2)
          THEN {<<"default", Ev.tid, Ev.type, "default">>} ELSE {})
    \cup UNION {IF Ev.read = "ok" /\ (f.res # "ok" \/ ToSet(f.ks) # {r.k : r \in {x \in Rows : x.v = (IF f.on = "default" THEN Ev.want ELSE Ev.other)}})
                THEN {<<"filter", Ev.tid, Ev.type, "default">>} ELSE {} : f \in ToSet(Ev.filters)}
\* the two deviations of Store.tla, recognised by their guards
HasEscOther == \E i \in DOMAIN Ev.form : Ev.form[i] = "esc" /\ Ev.cls[i] # "dquote"
Attribute(o) == IF Ev.ev = "value" /\ Ev.via = "literal" /\ Ev.type = "String" /\ o[1] \in {"roundtrip", "filter"} /\ HasEscOther THEN "LiteralUnescapesOnlyQuote"
                ELSE IF Ev.ev = "default" /\ Ev.type = "String" /\ o[1] = "filter" /\ "squote" \in ToSet(Ev.cls) THEN "DefaultSplicedInSql"
                ELSE IF o[1] = "capture" THEN "LiteralCapturesVariable" ELSE "none"
Step == /\ l <= Len(Rec) /\ Ev.ev \in {"value", "default", "start"} /\ l' = l + 1
        /\ LET nb == IF Ev.ev = "value" THEN ValueBad ELSE IF Ev.ev = "default" THEN DefaultBad
                     ELSE IF Ev.res # "ok" THEN {<<"error", 0, "model", Ev.res>>} ELSE {}
               named == {<<o, Attribute(o)>> : o \in nb}
           IN /\ bad' = bad \cup {<<"UNEXPLAINED", x[1], x[2]>> : x \in {y \in named : y[2] \notin KNOWN}}
              /\ devs' = devs \cup {x[2] : x \in {y \in named : y[2] \in KNOWN}}
        /\ UNCHANGED sid
Begin == /\ l <= Len(Rec) /\ Ev.ev = "begin" /\ l' = l + 1 /\ sid' = Ev.sid /\ bad' = {} /\ devs' = {}
End == /\ l <= Len(Rec) /\ Ev.ev = "end" /\ l' = l + 1 /\ PrintT(<<"DEVS", sid, devs>>) /\ UNCHANGED <<bad, devs, sid>>
TInit == l = 1 /\ bad = {} /\ devs = {} /\ sid = 0
TNext == Begin \/ Step \/ End
TSpec == TInit /\ [][TNext]_tvars
Monitors == \A o \in bad : o[1] # "UNEXPLAINED"
Reached == PrintT(<<"REACHED", TLCGet("stats").diameter - 1, Len(Rec)>>)
=============================================================================
