------------------------------- MODULE Store -------------------------------
(* C04: what a scalar value means on its way into and out of the store.     *)
(*                                                                          *)
(* A string is a sequence of character CLASSES (plain, single quote, double *)
(* quote, backslash, newline, control, SQL/JSON metacharacter, BMP, astral, *)
(* dollar, ...).  Three routes bring a value into a statement:              *)
(*   parameter : the value is bound, never part of the statement text;      *)
(*   literal   : the request text contains "...", in which every class of   *)
(*               MustEscape is written as an escape sequence and every      *)
(*               class of MayEscape may be; the parser decodes it;          *)
(*   default   : the data model contains the literal; the compiled filter   *)
(*               of a field with a default mentions the default value.      *)
(* The store is rows k -> [v, o]; a statement is a sequence of tokens and   *)
(* its STRUCTURE is that sequence with every value replaced by a hole.      *)
(* DEV lists the deviations the code had (all repaired, see the fix         *)
(* commits): TLC shows the properties hold with DEV = {} and gives a        *)
(* counterexample for each deviation.                                       *)
EXTENDS Naturals, Sequences, FiniteSets, TLC
CONSTANTS Cls, MaxLen, Keys, DEV
VARIABLES rows,    \* k -> [v, o]: what is stored
          meant,   \* k -> the value the request denoted
          shape,   \* structure of the last statement executed
          want     \* structure that statement has for a harmless value
vars == <<rows, meant, shape, want>>
Has(d) == d \in DEV
MustEscape == {"dquote", "bslash"}
MayEscape == {"newline", "ctrl", "bmp", "astral"}
Values == UNION {[1..n -> Cls] : n \in 0..MaxLen}
Range(f) == {f[i] : i \in DOMAIN f}
\* literal texts of a value: per character, raw or escaped
Lits(v) == {t \in [1..Len(v) -> {"raw", "esc"}] :
              \A i \in 1..Len(v) : (v[i] \in MustEscape => t[i] = "esc") /\ (t[i] = "esc" => v[i] \in MustEscape \cup MayEscape)}
\* decoding as the grammar promises: every escape sequence denotes its character
Decode(v, t) == v
\* decoding as the code did: only \" is recognised, any other escape sequence stays as backslash + something
RECURSIVE DecodeQuoteOnly(_, _)
DecodeQuoteOnly(v, t) ==
    IF v = <<>> THEN <<>>
    ELSE (IF t[1] = "esc" /\ v[1] # "dquote"
          THEN (IF v[1] = "bslash" THEN <<"bslash", "bslash">> ELSE <<"bslash", "plain">>)
          ELSE <<v[1]>>) \o DecodeQuoteOnly(Tail(v), Tail(t))
Parsed(v, t) == IF Has("LiteralUnescapesOnlyQuote") THEN DecodeQuoteOnly(v, t) ELSE Decode(v, t)

\* statements: tokens are keywords, holes ("?") and, when a value is spliced between quotes, its characters
Bound == <<"WHERE", "field", "=", "?">>
\* a value written between single quotes: a single quote inside ends the string early unless it is doubled
Spliced(d) == <<"WHEN", "'">> \o d \o <<"'", "=", "?">>
Structure(s) ==     \* what the engine sees: a quoted run is one hole, provided its quotes are balanced
    LET inside == SubSeq(s, 3, Len(s) - 3)
    IN IF Len(s) >= 5 /\ s[1] = "WHEN"
       THEN (IF "squote" \in Range(inside) THEN <<"WHEN", "?", "BROKEN">> ELSE <<"WHEN", "?", "=", "?">>)
       ELSE s
Quote(d) == IF Has("DefaultSplicedInSql") THEN d ELSE [i \in DOMAIN d |-> IF d[i] = "squote" THEN "squote2" ELSE d[i]]

Init == rows = <<>> /\ meant = <<>> /\ shape = <<>> /\ want = <<>>
Put(k, stored, intended) == /\ rows' = [x \in DOMAIN rows \cup {k} |-> IF x = k THEN [v |-> stored, o |-> "x"] ELSE rows[x]]
                            /\ meant' = [x \in DOMAIN meant \cup {k} |-> IF x = k THEN intended ELSE meant[x]]
WriteParam(k, v) == Put(k, v, v) /\ shape' = Bound /\ want' = Bound
WriteLiteral(k, v, t) == Put(k, Parsed(v, t), v) /\ shape' = Bound /\ want' = Bound
FilterParam(v) == shape' = Bound /\ want' = Bound /\ UNCHANGED <<rows, meant>>
\* a filter on a field whose default value is d
FilterOnDefault(d) == /\ shape' = Structure(Spliced(Quote(d))) /\ want' = Structure(Spliced(<<"plain">>))
                      /\ UNCHANGED <<rows, meant>>
\* a filter with a literal and a variable (named by the plain one-character string): what the variable's hole is bound to.
\* The code kept literals and variables in one table and looked a variable up by comparing its NAME with every entry.
VarName == <<"plain">>
FilterLitAndVar(lit, val) ==
    LET bound == IF Has("LiteralCapturesVariable") /\ lit = VarName THEN lit ELSE val
    IN /\ shape' = <<"WHERE", "f1", "!=", "?", "AND", "f2", "=", "?", "bound to", bound>>
       /\ want' = <<"WHERE", "f1", "!=", "?", "AND", "f2", "=", "?", "bound to", val>>
       /\ UNCHANGED <<rows, meant>>
Next == \/ \E k \in Keys, v \in Values : WriteParam(k, v)
        \/ \E a \in Values, b \in {v \in Values : Len(v) <= 1} : FilterLitAndVar(a, b)
        \/ \E k \in Keys, v \in Values : \E t \in Lits(v) : WriteLiteral(k, v, t)
        \/ \E v \in Values : FilterParam(v) \/ FilterOnDefault(v)
Spec == Init /\ [][Next]_vars

RoundTrip == \A k \in DOMAIN rows : rows[k].v = meant[k]
Matches(v) == {k \in DOMAIN rows : rows[k].v = v}
FilterFindsWritten == \A k \in DOMAIN meant : k \in Matches(meant[k])
StructureFixed == shape = want
OtherFieldUntouched == \A k \in DOMAIN rows : rows[k].o = "x"
=============================================================================
