----------------------------- MODULE MC_Paging -----------------------------
(* Model-level check of the second half of C05: paging through an ordered   *)
(* result with first k / after(keys of the last row) visits every matching  *)
(* row exactly once - for EVERY data set of up to MaxRows rows whose first  *)
(* key may be null or tied, every direction of the two keys, every page     *)
(* size.  The loop is the one an application runs (and dv queries runs on   *)
(* the real instance).  With the code's null comparison                     *)
(* (DEV = {"PagingSkipsNullKeys"}) TLC finds the lost rows.                 *)
EXTENDS QueryEval
CONSTANTS MaxRows
VARIABLES rows, q, visited, last, done
pvars == <<rows, q, visited, last, done>>
Q(d1, d2, k) == [ent |-> "A", sel |-> <<"u", "i">>, filters |-> <<>>, order |-> <<<<"i", d1>>, <<"u", d2>>>>, first |-> k, skip |-> 0,
                 page |-> [kind |-> "none", vals |-> <<>>], nullable |-> <<>>, subs |-> <<>>, aggs |-> <<>>, having |-> <<>>]
DataOf(rs) == [A |-> SetToSeq(rs), B |-> <<>>]
PInit == /\ \E n \in 0..MaxRows : \E kf \in [1..n -> 0..2] : rows = {[id |-> u, u |-> u, i |-> kf[u]] : u \in 1..n}
         /\ \E d1 \in {"asc", "desc"}, d2 \in {"asc", "desc"}, k \in 1..2 : q = Q(d1, d2, k)
         /\ visited = <<>> /\ last = <<>> /\ done = FALSE
PNext == /\ ~done
         /\ LET pq == IF last = <<>> THEN q ELSE [q EXCEPT !.page = [kind |-> "after", vals |-> last]]
                page == Result(DataOf(rows), pq)
            IN IF page = <<>> THEN done' = TRUE /\ UNCHANGED <<visited, last>>
               ELSE /\ visited' = visited \o page /\ done' = FALSE
                    /\ last' = <<page[Len(page)].i, page[Len(page)].u>>
         /\ UNCHANGED <<rows, q>>
PSpec == PInit /\ [][PNext]_pvars
Whole == [q EXCEPT !.first = 0]
PagingVisitsEveryRowOnce == done => visited = Result(DataOf(rows), Whole)
=============================================================================
