-------------------------- MODULE Trace_QueryEval --------------------------
(* C05 on a real instance (dv queries): the data set as written through     *)
(* mutate(), then one event per query with its AST and the decoded result.  *)
(* TLC evaluates the AST on the data set with QueryEval.tla and compares.   *)
(* A "paginate" event holds the pages obtained with first k / after(keys of *)
(* the last row): their concatenation must be the whole ordered result,     *)
(* every row exactly once.                                                  *)
EXTENDS QueryEval, Json, IOUtils
CONSTANTS KNOWN
Rec == ndJsonDeserialize(IOEnv.TRACE)
VARIABLES l, data, bad, devs, sid
tvars == <<l, data, bad, devs, sid>>
Ev == Rec[l]
RECURSIVE Flat(_)
Flat(pages) == IF pages = <<>> THEN <<>> ELSE Head(pages) \o Flat(Tail(pages))
Whole(q) == [q EXCEPT !.first = 0, !.skip = 0, !.page = [kind |-> "none", vals |-> <<>>]]
Same(q, obs, exp) == IF q.order = <<>> THEN ToSet(obs) = ToSet(exp) /\ Len(obs) = Len(exp) ELSE obs = exp
\* a mismatch is attributed to a listed deviation only when the observation equals what QueryEval.tla gives with that deviation switched on
Observed == IF Ev.ev = "query" THEN Ev.rows ELSE Flat(Ev.pages)
WithDev(d) == IF Ev.ev = "query" THEN ResultD({d}, data, Ev.ast) ELSE PagesD({d}, data, Ev.ast, <<>>, 40)
Attribute(o) == IF \E d \in KNOWN : Same(Ev.ast, Observed, WithDev(d)) THEN CHOOSE d \in KNOWN : Same(Ev.ast, Observed, WithDev(d)) ELSE "none"
Step == /\ l <= Len(Rec) /\ Ev.ev \in {"query", "paginate"} /\ l' = l + 1
        /\ LET nb == IF Ev.ev = "query"
                     THEN (IF Ev.res = "ok" /\ Same(Ev.ast, Ev.rows, Result(data, Ev.ast)) THEN {} ELSE {<<"result", Ev.qid>>})
                     ELSE (IF Ev.res = "ok" /\ Flat(Ev.pages) = Result(data, Whole(Ev.ast)) THEN {} ELSE {<<"pages", Ev.qid>>})
               named == {<<o, Attribute(o)>> : o \in nb}
           IN /\ IF nb = {} THEN TRUE ELSE PrintT(<<"MISMATCH", sid, Ev.qid, "expected", Result(data, IF Ev.ev = "query" THEN Ev.ast ELSE Whole(Ev.ast)),
                                     "observed", IF Ev.ev = "query" THEN Ev.rows ELSE Flat(Ev.pages), Ev.res>>)
              /\ bad' = bad \cup {<<"UNEXPLAINED", x[1], x[2]>> : x \in {y \in named : y[2] \notin KNOWN}}
              /\ devs' = devs \cup {x[2] : x \in {y \in named : y[2] \in KNOWN}}
        /\ UNCHANGED <<data, sid>>
Data == /\ l <= Len(Rec) /\ Ev.ev = "data" /\ l' = l + 1 /\ data' = Ev.data
        /\ bad' = IF Ev.setup = "ok" THEN bad ELSE bad \cup {<<"UNEXPLAINED", <<"setup", 0>>, Ev.setup>>}
        /\ UNCHANGED <<devs, sid>>
Begin == /\ l <= Len(Rec) /\ Ev.ev = "begin" /\ l' = l + 1 /\ sid' = Ev.sid /\ bad' = {} /\ devs' = {} /\ data' = <<>>
End == /\ l <= Len(Rec) /\ Ev.ev = "end" /\ l' = l + 1 /\ PrintT(<<"DEVS", sid, devs>>) /\ UNCHANGED <<data, bad, devs, sid>>
TInit == l = 1 /\ data = <<>> /\ bad = {} /\ devs = {} /\ sid = 0
TNext == Begin \/ Data \/ Step \/ End
TSpec == TInit /\ [][TNext]_tvars
Monitors == \A o \in bad : o[1] # "UNEXPLAINED"
Reached == PrintT(<<"REACHED", TLCGet("stats").diameter - 1, Len(Rec)>>)
=============================================================================
