----------------------------- MODULE QueryEval -----------------------------
(* C05: the meaning of a query, as a function from the stored rows to the   *)
(* result.  This is the reference the compiled SQL is compared with.        *)
(*                                                                          *)
(* Values are integer CODES that preserve the order of the values of their  *)
(* field; 0 is null (smaller than every value, as in the storage engine).   *)
(* A data set gives, per entity, a sequence of rows: records with an id,    *)
(* one code per scalar field and one sequence of ids per reference field.   *)
(* A query (AST) is a record                                                *)
(*   ent, sel (selected scalar fields), filters (<<f, op, v>>), order       *)
(*   (<<f, dir>>), first, skip (0 = none), page ([kind, vals]), nullable    *)
(*   (reference fields that may be empty), subs (<<field, query>>), aggs    *)
(*   (<<alias, function, field>>) and having (<<alias, op, v>>).            *)
(* DEV lists the deviations of the code from this meaning.                  *)
EXTENDS Naturals, Integers, Sequences, FiniteSets, TLC
CONSTANTS DEV
Has(d) == d \in DEV
NULL == 0
\* the data model of the harness (harness/src/queries.rs): defaults and declared nullability of the reference fields
Default == [A |-> [d |-> 2], B |-> [n |-> 2]]
DeclaredNullable == [A |-> {"one", "many", "self"}, B |-> {}]
ToSet(s) == {s[i] : i \in DOMAIN s}

HasDefault(e, f) == f \in DOMAIN Default[e]
Val(e, r, f) == IF r[f] = NULL /\ HasDefault(e, f) THEN Default[e][f] ELSE r[f]
\* the value a filter, an order key or a paging key sees.  As designed it is the value a selection would return.
Seen(e, r, f, selected) == Val(e, r, f)

Cmp(op, a, b) == CASE op = "=" -> a = b [] op = "!=" -> a # b [] op = "<" -> a < b [] op = "<=" -> a <= b
                   [] op = ">" -> a > b [] op = ">=" -> a >= b
\* a comparison with null is only true for "= null" / "!= null"; a null field fails every other comparison
Pass(e, r, flt, sel) ==
    LET v == Seen(e, r, flt[1], flt[1] \in ToSet(sel))
    IN IF flt[3] = NULL THEN (IF flt[2] = "=" THEN v = NULL ELSE IF flt[2] = "!=" THEN v # NULL ELSE FALSE)
       ELSE v # NULL /\ Cmp(flt[2], v, flt[3])

\* order of two rows under a list of keys: -1, 0, 1 ; null is the smallest value
RECURSIVE KeyCmp(_, _, _, _, _)
KeyCmp(e, a, b, ord, sel) ==
    IF ord = <<>> THEN 0
    ELSE LET f == Head(ord)[1]
             x == Seen(e, a, f, f \in ToSet(sel))
             y == Seen(e, b, f, f \in ToSet(sel))
         IN IF x = y THEN KeyCmp(e, a, b, Tail(ord), sel)
            ELSE IF (x < y) = (Head(ord)[2] = "asc") THEN -1 ELSE 1
\* position of a row relative to a tuple of paging values (a prefix of the keys): -1 before, 0 equal on the prefix, 1 after
\* (2: neither, which is what the code's SQL comparison gives when the key of the row, or the paging value, is null)
RECURSIVE PageCmp(_, _, _, _, _, _)
PageCmp(dv, e, r, vals, ord, sel) ==
    IF vals = <<>> \/ ord = <<>> THEN 0
    ELSE LET f == Head(ord)[1]
             x == Seen(e, r, f, f \in ToSet(sel))
         IN IF "PagingSkipsNullKeys" \in dv /\ x = NULL THEN 2   \* SQL: a comparison with null is never true
            ELSE IF x = Head(vals) THEN PageCmp(dv, e, r, Tail(vals), Tail(ord), sel)
            ELSE IF (x < Head(vals)) = (Head(ord)[2] = "asc") THEN -1 ELSE 1

Rows(data, e) == data[e]
RowById(data, e, id) == CHOOSE r \in ToSet(Rows(data, e)) : r.id = id

RECURSIVE Eval(_, _, _, _)
RECURSIVE Matches(_, _, _, _)
RECURSIVE MapProject(_, _, _, _)
\* rows of `base` (a set of rows of q.ent) that the query keeps, before ordering and limits
Matches(dv, data, q, base) ==
    {r \in base :
        /\ \A i \in DOMAIN q.filters : Pass(q.ent, r, q.filters[i], q.sel)
        /\ \A i \in DOMAIN q.subs :
              LET fld == q.subs[i][1]
                  sq == q.subs[i][2]
              IN \/ fld \in ToSet(q.nullable) \/ fld \in DeclaredNullable[q.ent]
                 \/ Eval(dv, data, sq, {RowById(data, sq.ent, id) : id \in ToSet(r[fld])}) # <<>>}
Project(dv, data, q, r) ==
    [f \in ToSet(q.sel) \cup {q.subs[i][1] : i \in DOMAIN q.subs} |->
        IF f \in ToSet(q.sel) THEN Val(q.ent, r, f)
        ELSE LET sq == (CHOOSE i \in DOMAIN q.subs : q.subs[i][1] = f)
             IN Eval(dv, data, q.subs[sq][2], {RowById(data, q.subs[sq][2].ent, id) : id \in ToSet(r[f])})]
RECURSIVE SetToSeq(_)
SetToSeq(S) == IF S = {} THEN <<>> ELSE LET x == CHOOSE y \in S : TRUE IN <<x>> \o SetToSeq(S \ {x})
SeqOfSet(S, Less(_, _)) == SortSeq(SetToSeq(S), Less)
Drop(s, n) == IF n >= Len(s) THEN <<>> ELSE SubSeq(s, n + 1, Len(s))
Take(s, n) == IF n = 0 \/ n >= Len(s) THEN s ELSE SubSeq(s, 1, n)
MapProject(dv, data, q, s) == IF s = <<>> THEN <<>> ELSE <<Project(dv, data, q, Head(s))>> \o MapProject(dv, data, q, Tail(s))
Eval(dv, data, q, base) ==
    LET kept == Matches(dv, data, q, base)
        \* (the code refuses a null paging value: a page that ends on a row with a null key cannot be continued)
        refused == "PagingSkipsNullKeys" \in dv /\ q.page.kind # "none" /\ NULL \in ToSet(q.page.vals)
        paged == {r \in kept : CASE refused -> FALSE []  q.page.kind = "after" -> PageCmp(dv, q.ent, r, q.page.vals, q.order, q.sel) = 1
                                 [] q.page.kind = "before" -> PageCmp(dv, q.ent, r, q.page.vals, q.order, q.sel) = -1
                                 [] OTHER -> TRUE}
        sorted == SeqOfSet(paged, LAMBDA a, b : KeyCmp(q.ent, a, b, q.order, q.sel) = -1 \/ (KeyCmp(q.ent, a, b, q.order, q.sel) = 0 /\ a.id < b.id))
        limited == Take(Drop(sorted, q.skip), q.first)
    IN MapProject(dv, data, q, limited)
\* ------------------------------------------------------------ aggregates
\* q.aggs = <<alias, fn, field>>; the selected scalar fields are the grouping keys; q.having filters on aliases.
\* An aggregate ignores null values; without any value max / min / avg are null (-1 here: 0 is a possible sum).
ANULL == -1
RECURSIVE SumOver(_, _, _)
SumOver(S, e, f) == IF S = {} THEN 0 ELSE LET r == CHOOSE x \in S : TRUE IN Val(e, r, f) + SumOver(S \ {r}, e, f)
AggValue(a, S, e) ==
    LET nn == {r \in S : Val(e, r, a[3]) # NULL}
        vals == {Val(e, r, a[3]) : r \in nn}
    IN CASE a[2] = "count" -> Cardinality(S)
         [] a[2] = "max" -> IF nn = {} THEN ANULL ELSE CHOOSE v \in vals : \A w \in vals : v >= w
         [] a[2] = "min" -> IF nn = {} THEN ANULL ELSE CHOOSE v \in vals : \A w \in vals : v <= w
         [] a[2] = "sum" -> SumOver(nn, e, a[3])
         [] a[2] = "avg" -> IF nn = {} THEN ANULL ELSE (SumOver(nn, e, a[3]) * 60) \div Cardinality(nn)   \* sixtieths: exact for 1..6 values
Aliases(q) == {q.aggs[i][1] : i \in DOMAIN q.aggs}
AggOf(q, al) == q.aggs[CHOOSE i \in DOMAIN q.aggs : q.aggs[i][1] = al]
GroupKey(q, r) == [f \in ToSet(q.sel) |-> Val(q.ent, r, f)]
RECURSIVE RowCmp(_, _, _)
RowCmp(a, b, ord) == IF ord = <<>> THEN 0
                     ELSE LET x == a[Head(ord)[1]]  y == b[Head(ord)[1]]
                          IN IF x = y THEN RowCmp(a, b, Tail(ord)) ELSE IF (x < y) = (Head(ord)[2] = "asc") THEN -1 ELSE 1
EvalAgg(data, q) ==
    LET kept == {r \in ToSet(Rows(data, q.ent)) : \A i \in DOMAIN q.filters : Pass(q.ent, r, q.filters[i], q.sel)}
        keys == IF q.sel = <<>> THEN {<<>>} ELSE {GroupKey(q, r) : r \in kept}   \* without grouping key: one row, even over no rows
        GroupRows(k) == IF q.sel = <<>> THEN kept ELSE {r \in kept : GroupKey(q, r) = k}
        RowOf(k) == [f \in ToSet(q.sel) \cup Aliases(q) |-> IF f \in ToSet(q.sel) THEN k[f] ELSE AggValue(AggOf(q, f), GroupRows(k), q.ent)]
        all == {RowOf(k) : k \in keys}
        passed == {w \in all : \A i \in DOMAIN q.having : w[q.having[i][1]] # ANULL /\ Cmp(q.having[i][2], w[q.having[i][1]], q.having[i][3])}
        sorted == SeqOfSet(passed, LAMBDA a, b : RowCmp(a, b, q.order) = -1)
    IN Take(Drop(sorted, q.skip), q.first)
ResultD(dv, data, q) == IF q.aggs # <<>> THEN EvalAgg(data, q) ELSE Eval(dv, data, q, ToSet(Rows(data, q.ent)))
Result(data, q) == ResultD(DEV, data, q)
\* the paging loop of an application: first k, then after(keys of the last row) until a page is empty (at most n pages)
KeysOfRow(row, q) == [j \in 1..Len(q.order) |-> row[q.order[j][1]]]
RECURSIVE PagesD(_, _, _, _, _)
PagesD(dv, data, q, last, n) ==
    IF n = 0 THEN <<>>
    ELSE LET pq == IF last = <<>> THEN q ELSE [q EXCEPT !.page = [kind |-> "after", vals |-> last]]
             page == ResultD(dv, data, pq)
         IN IF page = <<>> THEN <<>> ELSE page \o PagesD(dv, data, q, KeysOfRow(page[Len(page)], q), n - 1)
=============================================================================
