---- MODULE MC_Paging_TTrace_1790186205 ----
EXTENDS Sequences, TLCExt, Toolbox, Naturals, TLC, MC_Paging

_expression ==
    LET MC_Paging_TEExpression == INSTANCE MC_Paging_TEExpression
    IN MC_Paging_TEExpression!expression
----

_trace ==
    LET MC_Paging_TETrace == INSTANCE MC_Paging_TETrace
    IN MC_Paging_TETrace!trace
----

_inv ==
    ~(
        TLCGet("level") = Len(_TETrace)
        /\
        q = ([ent |-> "A", sel |-> <<"u", "i">>, filters |-> <<>>, order |-> <<<<"i", "desc">>, <<"u", "asc">>>>, first |-> 1, skip |-> 0, page |-> [kind |-> "none", vals |-> <<>>], nullable |-> <<>>, subs |-> <<>>, aggs |-> <<>>, having |-> <<>>])
        /\
        last = (<<0, 1>>)
        /\
        visited = (<<[u |-> 1, i |-> 0]>>)
        /\
        rows = ({[id |-> 1, u |-> 1, i |-> 0], [id |-> 2, u |-> 2, i |-> 0]})
        /\
        done = (TRUE)
    )
----

_init ==
    /\ done = _TETrace[1].done
    /\ q = _TETrace[1].q
    /\ last = _TETrace[1].last
    /\ rows = _TETrace[1].rows
    /\ visited = _TETrace[1].visited
----

_next ==
    /\ \E i,j \in DOMAIN _TETrace:
        /\ \/ /\ j = i + 1
              /\ i = TLCGet("level")
        /\ done  = _TETrace[i].done
        /\ done' = _TETrace[j].done
        /\ q  = _TETrace[i].q
        /\ q' = _TETrace[j].q
        /\ last  = _TETrace[i].last
        /\ last' = _TETrace[j].last
        /\ rows  = _TETrace[i].rows
        /\ rows' = _TETrace[j].rows
        /\ visited  = _TETrace[i].visited
        /\ visited' = _TETrace[j].visited

\* Uncomment the ASSUME below to write the states of the error trace
\* to the given file in Json format. Note that you can pass any tuple
\* to `JsonSerialize`. For example, a sub-sequence of _TETrace.
    \* ASSUME
    \*     LET J == INSTANCE Json
    \*         IN J!JsonSerialize("MC_Paging_TTrace_1790186205.json", _TETrace)

=============================================================================

 Note that you can extract this module `MC_Paging_TEExpression`
  to a dedicated file to reuse `expression` (the module in the 
  dedicated `MC_Paging_TEExpression.tla` file takes precedence 
  over the module `MC_Paging_TEExpression` below).

---- MODULE MC_Paging_TEExpression ----
EXTENDS Sequences, TLCExt, Toolbox, Naturals, TLC, MC_Paging

expression == 
    [
        \* To hide variables of the `MC_Paging` spec from the error trace,
        \* remove the variables below.  The trace will be written in the order
        \* of the fields of this record.
        done |-> done
        ,q |-> q
        ,last |-> last
        ,rows |-> rows
        ,visited |-> visited
        
        \* Put additional constant-, state-, and action-level expressions here:
        \* ,_stateNumber |-> _TEPosition
        \* ,_doneUnchanged |-> done = done'
        
        \* Format the `done` variable as Json value.
        \* ,_doneJson |->
        \*     LET J == INSTANCE Json
        \*     IN J!ToJson(done)
        
        \* Lastly, you may build expressions over arbitrary sets of states by
        \* leveraging the _TETrace operator.  For example, this is how to
        \* count the number of times a spec variable changed up to the current
        \* state in the trace.
        \* ,_doneModCount |->
        \*     LET F[s \in DOMAIN _TETrace] ==
        \*         IF s = 1 THEN 0
        \*         ELSE IF _TETrace[s].done # _TETrace[s-1].done
        \*             THEN 1 + F[s-1] ELSE F[s-1]
        \*     IN F[_TEPosition - 1]
    ]

=============================================================================



Parsing and semantic processing can take forever if the trace below is long.
 In this case, it is advised to uncomment the module below to deserialize the
 trace from a generated binary file.

\*
\*---- MODULE MC_Paging_TETrace ----
\*EXTENDS IOUtils, TLC, MC_Paging
\*
\*trace == IODeserialize("MC_Paging_TTrace_1790186205.bin", TRUE)
\*
\*=============================================================================
\*

---- MODULE MC_Paging_TETrace ----
EXTENDS TLC, MC_Paging

trace == 
    <<
    ([q |-> [ent |-> "A", sel |-> <<"u", "i">>, filters |-> <<>>, order |-> <<<<"i", "desc">>, <<"u", "asc">>>>, first |-> 1, skip |-> 0, page |-> [kind |-> "none", vals |-> <<>>], nullable |-> <<>>, subs |-> <<>>, aggs |-> <<>>, having |-> <<>>],last |-> <<>>,visited |-> <<>>,rows |-> {[id |-> 1, u |-> 1, i |-> 0], [id |-> 2, u |-> 2, i |-> 0]},done |-> FALSE]),
    ([q |-> [ent |-> "A", sel |-> <<"u", "i">>, filters |-> <<>>, order |-> <<<<"i", "desc">>, <<"u", "asc">>>>, first |-> 1, skip |-> 0, page |-> [kind |-> "none", vals |-> <<>>], nullable |-> <<>>, subs |-> <<>>, aggs |-> <<>>, having |-> <<>>],last |-> <<0, 1>>,visited |-> <<[u |-> 1, i |-> 0]>>,rows |-> {[id |-> 1, u |-> 1, i |-> 0], [id |-> 2, u |-> 2, i |-> 0]},done |-> FALSE]),
    ([q |-> [ent |-> "A", sel |-> <<"u", "i">>, filters |-> <<>>, order |-> <<<<"i", "desc">>, <<"u", "asc">>>>, first |-> 1, skip |-> 0, page |-> [kind |-> "none", vals |-> <<>>], nullable |-> <<>>, subs |-> <<>>, aggs |-> <<>>, having |-> <<>>],last |-> <<0, 1>>,visited |-> <<[u |-> 1, i |-> 0]>>,rows |-> {[id |-> 1, u |-> 1, i |-> 0], [id |-> 2, u |-> 2, i |-> 0]},done |-> TRUE])
    >>
----


=============================================================================

---- CONFIG MC_Paging_TTrace_1790186205 ----
CONSTANTS
    DEV = { "PagingSkipsNullKeys" }
    MaxRows = 3

INVARIANT
    _inv

CHECK_DEADLOCK
    \* CHECK_DEADLOCK off because of PROPERTY or INVARIANT above.
    FALSE

INIT
    _init

NEXT
    _next

CONSTANT
    _TETrace <- _trace

ALIAS
    _expression
=============================================================================
\* Generated on Wed Sep 23 17:57:11 UTC 2026